import Cutplace.Proofs.OdsLemmas
/-
C15  ODS sheets are read as the logical table they contain.

`odsRows` is the transcription of `rowio.ods_rows` over an ElementTree-shaped tree; `encodeDoc f d`
stores a document `d` (sheets of rows of cell texts) as ODF content using the optional features `f`.
Full statement (target): `odsRows (encodeDoc f d) k = rows of the k-th sheet` for every `f`.
Since the repair of the cell text extraction this holds - and is proved - for every document and every
combination of column runs, white-space elements (`text:s`, `text:tab`, `text:line-break`), `text:span` mark-up and
several paragraphs per cell (`C15_decode_encode`); row runs (`table:number-rows-repeated`) are still not expanded:
a proved counterexample (open known finding).
-/
namespace Cutplace.Props
open Cutplace Cutplace.Spec

/-- run-length compression of equal adjacent cells (or rows) loses nothing -/
theorem C15_runs_lossless {α} [DecidableEq α] (l : List α) : expandRuns (runs l) = l := expandRuns_runs l

theorem tables_of_encodeDoc (f : OdsFeatures) (d : OdsDoc) :
    (((encodeDoc f d).childrenTagged "office:body").flatMap (·.childrenTagged "office:spreadsheet")).flatMap
      (·.childrenTagged "table:table") = d.zipIdx.map (fun (p : List (List Str) × Nat) => encodeSheet f ("Sheet" ++ toString (p.2 + 1)) p.1) := by
  unfold encodeDoc
  simp only [Xml.childrenTagged, Xml.children, Xml.tag, List.filter_cons, beq_self_eq_true, if_true, List.filter_nil,
    List.flatMap_cons, List.flatMap_nil, List.append_nil]
  have hmap : d.zipIdx.map (fun x => match x with | (rows, i) => encodeSheet f ("Sheet" ++ toString (i + 1)) rows) =
      d.zipIdx.map (fun (p : List (List Str) × Nat) => encodeSheet f ("Sheet" ++ toString (p.2 + 1)) p.1) := by
    apply List.map_congr_left; intro p _; rfl
  rw [hmap]
  exact filter_tag_map _ "table:table" _ (fun a => rfl)

/-- **For every document, every sheet number inside it and every encoding that does not use row runs** - column runs
(`table:number-columns-repeated`), blanks / tabs / line breaks stored as `text:s` / `text:tab` / `text:line-break`, text
wrapped in `text:span`, lines stored as separate `text:p`, in any combination - reading sheet `k` returns exactly the rows
and cell texts of the k-th sheet (empty cells as empty strings).  Rows are narrower and cell texts shorter than
`10 ^ 4300`: a repeat count with more digits than that is beyond CPython's `int()` conversion limit. -/
theorem C15_decode_encode (f : OdsFeatures) (hf : f.rowRuns = false) (d : OdsDoc) (k : Nat) (hk1 : 1 ≤ k) (hk2 : k ≤ d.length)
    (hsmall : ∀ r ∈ d[k - 1]'(by omega), r.length < 10 ^ maxStrDigits)
    (hcells : ∀ r ∈ d[k - 1]'(by omega), ∀ t ∈ r, t.length < 10 ^ maxStrDigits) :
    odsRows (some (encodeDoc f d)) k = .rows ((d[k - 1]'(by omega)).map (·.map some)) := by
  unfold odsRows
  simp only [tables_of_encodeDoc, List.length_map, List.length_zipIdx]
  have h1 : ¬ (d.length < k ∨ k < 1) := by omega
  simp only [Bool.or_eq_true, decide_eq_true_eq, h1, if_false]
  have hget : (d.zipIdx.map (fun (p : List (List Str) × Nat) => encodeSheet f ("Sheet" ++ toString (p.2 + 1)) p.1))[k - 1]? =
      some (encodeSheet f ("Sheet" ++ toString (k - 1 + 1)) (d[k - 1]'(by omega))) := by
    rw [List.getElem?_map, List.getElem?_zipIdx]
    have : d[k - 1]? = some (d[k - 1]'(by omega)) := List.getElem?_eq_getElem (by omega)
    simp [this]
  rw [hget]
  simp only []
  have hrows : tableRowsIn (encodeSheet f ("Sheet" ++ toString (k - 1 + 1)) (d[k - 1]'(by omega))).children =
      (d[k - 1]'(by omega)).map (fun r => encodeRow f r 1) := by
    unfold encodeSheet Xml.children
    simp only [hf, Bool.false_eq_true, if_false]
    have := tableRowsIn_rows f ((d[k - 1]'(by omega)).map (fun r => (r, 1)))
    simpa [List.map_map, Function.comp_def] using this
  rw [hrows, odsRowsOf_encoded f _ hsmall hcells]

/-- Requesting a sheet the document does not have fails with a data-format error. -/
theorem C15_missing_sheet (f : OdsFeatures) (d : OdsDoc) (k : Nat) (h : d.length < k) :
    odsRows (some (encodeDoc f d)) k = .formatError := by
  unfold odsRows
  simp only [tables_of_encodeDoc, List.length_map, List.length_zipIdx]
  simp [h]

/-- A container that cannot be opened or parsed (not a zip archive, no content.xml, malformed XML)
fails with a data-format error. -/
theorem C15_container (k : Nat) : odsRows none k = .formatError := rfl

/-- A repeat count that is not a number or not positive fails with a data-format error. -/
theorem C15_bad_repeat :
    (odsRow (.node "table:table-row" [] none [.node "table:table-cell" [("table:number-columns-repeated", ['0'])] none [] none] none)
      = some none) ∧
    (odsRow (.node "table:table-row" [] none [.node "table:table-cell" [("table:number-columns-repeated", ['x'])] none [] none] none)
      = some none) := by
  constructor <;> rfl

/-- The full statement still fails for row runs: -/
theorem C15_row_runs_counterexample :
    odsRows (some (encodeDoc { rowRuns := true } [[[['a']], [['a']]]])) 1 ≠ .rows [[some ['a']], [some ['a']]] := by decide +kernel

/-- the three mark-up features that used to lose text (findings C15:decode:whitespace-elements / spans / paragraphs, fixed):
the reader now returns the text -/
example : odsRows (some (encodeDoc { whitespace := true } [[["a  b\tc".toList]]])) 1 = .rows [[some "a  b\tc".toList]] := by decide +kernel
example : odsRows (some (encodeDoc { spans := true } [[[['a']]]])) 1 = .rows [[some ['a']]] := by decide +kernel
example : odsRows (some (encodeDoc { paragraphs := true, whitespace := true } [[["l1\nl  2".toList]]])) 1 = .rows [[some "l1\nl  2".toList]] := by
  decide +kernel

/-- **Rows inside row containers.** The rows of a sheet that are wrapped into `table:table-header-rows`, `table:table-row-group`
(also nested) and `table:table-rows` are found in document order (before 7fe378e they were skipped: only direct children of the
table were read).  `groupRows` is the wrapping the correspondence uses. -/
theorem C15_row_containers (f : OdsFeatures) (rows : List (List Str × Nat)) :
    tableRowsIn (groupRows (rows.map (fun p => encodeRow f p.1 p.2))) = rows.map (fun p => encodeRow f p.1 p.2) :=
  tableRowsIn_groupRows f rows

example : odsRows (some (regroupDoc (encodeDoc { colRuns := true } [[[['a']], [['b'], ['b']], [['c']], [['d']], [['e']]]]))) 1
    = .rows [[some ['a']], [some ['b'], some ['b']], [some ['c']], [some ['d']], [some ['e']]] := by decide +kernel

theorem mapChildren_tag (g : List Xml → List Xml) (x : Xml) : (mapChildren g x).tag = x.tag := by cases x; rfl
theorem mapChildren_children (g : List Xml → List Xml) (x : Xml) : (mapChildren g x).children = g x.children := by cases x; rfl

theorem tables_of_regroupDoc (f : OdsFeatures) (d : OdsDoc) :
    (((regroupDoc (encodeDoc f d)).childrenTagged "office:body").flatMap (·.childrenTagged "office:spreadsheet")).flatMap
      (·.childrenTagged "table:table") =
      d.zipIdx.map (fun (p : List (List Str) × Nat) => mapChildren groupRows (encodeSheet f ("Sheet" ++ toString (p.2 + 1)) p.1)) := by
  unfold regroupDoc encodeDoc
  simp only [mapChildren, Xml.childrenTagged, Xml.children, Xml.tag, List.map_cons, List.map_nil, List.filter_cons, beq_self_eq_true, if_true,
    List.filter_nil, List.flatMap_cons, List.flatMap_nil, List.append_nil, List.map_map]
  have hmap : (d.zipIdx.map ((mapChildren groupRows) ∘ fun x => match x with | (rows, i) => encodeSheet f ("Sheet" ++ toString (i + 1)) rows)) =
      d.zipIdx.map (fun (p : List (List Str) × Nat) => mapChildren groupRows (encodeSheet f ("Sheet" ++ toString (p.2 + 1)) p.1)) := by
    apply List.map_congr_left; intro p _; rfl
  rw [hmap]
  exact filter_tag_map _ "table:table" _ (fun a => by rw [mapChildren_tag]; rfl)

/-- **decode ∘ encode with the rows of every sheet in row containers**: as `C15_decode_encode`, for documents whose rows are
wrapped into header rows, (nested) outline groups and plain row groups -/
theorem C15_decode_encode_grouped (f : OdsFeatures) (hf : f.rowRuns = false) (d : OdsDoc) (k : Nat) (hk1 : 1 ≤ k) (hk2 : k ≤ d.length)
    (hsmall : ∀ r ∈ d[k - 1]'(by omega), r.length < 10 ^ maxStrDigits)
    (hcells : ∀ r ∈ d[k - 1]'(by omega), ∀ t ∈ r, t.length < 10 ^ maxStrDigits) :
    odsRows (some (regroupDoc (encodeDoc f d))) k = .rows ((d[k - 1]'(by omega)).map (·.map some)) := by
  unfold odsRows
  simp only [tables_of_regroupDoc, List.length_map, List.length_zipIdx]
  have h1 : ¬ (d.length < k ∨ k < 1) := by omega
  simp only [Bool.or_eq_true, decide_eq_true_eq, h1, if_false]
  have hget : (d.zipIdx.map (fun (p : List (List Str) × Nat) => mapChildren groupRows (encodeSheet f ("Sheet" ++ toString (p.2 + 1)) p.1)))[k - 1]? =
      some (mapChildren groupRows (encodeSheet f ("Sheet" ++ toString (k - 1 + 1)) (d[k - 1]'(by omega)))) := by
    rw [List.getElem?_map, List.getElem?_zipIdx]
    have : d[k - 1]? = some (d[k - 1]'(by omega)) := List.getElem?_eq_getElem (by omega)
    simp [this]
  rw [hget]
  simp only []
  have hrows : tableRowsIn (mapChildren groupRows (encodeSheet f ("Sheet" ++ toString (k - 1 + 1)) (d[k - 1]'(by omega)))).children =
      (d[k - 1]'(by omega)).map (fun r => encodeRow f r 1) := by
    rw [mapChildren_children]
    unfold encodeSheet Xml.children
    simp only [hf, Bool.false_eq_true, if_false]
    have := tableRowsIn_groupRows f ((d[k - 1]'(by omega)).map (fun r => (r, 1)))
    simpa [List.map_map, Function.comp_def] using this
  rw [hrows, odsRowsOf_encoded f _ hsmall hcells]

/-- **Covered cells.** Decoding the cells of a row does not depend on which of them are stored as cells covered by a merge
(`table:covered-table-cell`): whatever list of cell elements a row holds, covering every second one leaves the decoded row
unchanged - same number of cells, same texts, same repeat counts. -/
theorem C15_covered_cells (cells : List Xml) : odsRow.cells (coverCells cells) = odsRow.cells cells :=
  cells_coverCells cells

def isCellTag (c : Xml) : Bool := c.tag == "table:table-cell" || c.tag == "table:covered-table-cell"

theorem coverCells_allCells : ∀ cs : List Xml, (∀ c ∈ cs, isCellTag c = true) → ∀ c ∈ coverCells cs, isCellTag c = true := by
  intro cs
  fun_induction coverCells cs with
  | case1 a tag attrs text children tail rest ih =>
    intro h c hc
    simp only [List.mem_cons] at hc
    rcases hc with rfl | rfl | hc
    · exact h _ (by simp)
    · simp [isCellTag, Xml.tag]
    · exact ih (fun c hc => h c (by simp [hc])) c hc
  | case2 cs h => intro h c hc; exact h c hc

theorem odsRow_cover (tag : String) (attrs text) (cells : List Xml) (tail) (h : ∀ c ∈ cells, isCellTag c = true) :
    odsRow (mapChildren coverCells (.node tag attrs text cells tail)) = odsRow (.node tag attrs text cells tail) := by
  unfold odsRow mapChildren
  simp only [Xml.children]
  have h1 : (coverCells cells).filter (fun c => c.tag == "table:table-cell" || c.tag == "table:covered-table-cell") = coverCells cells :=
    List.filter_eq_self.mpr (coverCells_allCells cells h)
  have h2 : cells.filter (fun c => c.tag == "table:table-cell" || c.tag == "table:covered-table-cell") = cells :=
    List.filter_eq_self.mpr h
  rw [h1, h2, cells_coverCells]

theorem odsRow_cover_encodeRow (f : OdsFeatures) (r : List Str) (n : Nat) :
    odsRow (mapChildren coverCells (encodeRow f r n)) = odsRow (encodeRow f r n) := by
  unfold encodeRow
  apply odsRow_cover
  intro c hc
  split at hc
  · simp only [List.mem_map] at hc; obtain ⟨p, _, rfl⟩ := hc; rfl
  · simp only [List.mem_map] at hc; obtain ⟨p, _, rfl⟩ := hc; rfl

theorem odsRowsOf_congr {α} (g h : α → Xml) : ∀ l : List α, (∀ x ∈ l, odsRow (g x) = odsRow (h x)) → odsRowsOf (l.map g) = odsRowsOf (l.map h)
  | [], _ => rfl
  | x :: rest, hx => by
    rw [List.map_cons, List.map_cons, odsRowsOf, odsRowsOf, hx x (by simp), odsRowsOf_congr g h rest (fun y hy => hx y (by simp [hy]))]

theorem tableRowsIn_coverRows (f : OdsFeatures) (rows : List (List Str)) :
    tableRowsIn ((rows.map (fun r => encodeRow f r 1)).map (mapChildren coverCells)) = rows.map (fun r => mapChildren coverCells (encodeRow f r 1)) := by
  induction rows with
  | nil => simp only [List.map_nil]; rw [tableRowsIn]
  | cons p rest ih =>
    rw [List.map_cons, List.map_cons, tableRowsIn, ih]
    have : tableRowsOf (mapChildren coverCells (encodeRow f p 1)) = [mapChildren coverCells (encodeRow f p 1)] := by
      unfold encodeRow mapChildren
      rw [tableRowsOf]
      simp
    rw [this]; rfl

theorem tables_of_coverDoc (f : OdsFeatures) (d : OdsDoc) :
    (((coverDoc (encodeDoc f d)).childrenTagged "office:body").flatMap (·.childrenTagged "office:spreadsheet")).flatMap
      (·.childrenTagged "table:table") =
      d.zipIdx.map (fun (p : List (List Str) × Nat) => mapChildren (List.map (mapChildren coverCells)) (encodeSheet f ("Sheet" ++ toString (p.2 + 1)) p.1)) := by
  unfold coverDoc encodeDoc
  simp only [mapChildren, Xml.childrenTagged, Xml.children, Xml.tag, List.map_cons, List.map_nil, List.filter_cons, beq_self_eq_true, if_true,
    List.filter_nil, List.flatMap_cons, List.flatMap_nil, List.append_nil, List.map_map]
  have hmap : List.map ((fun x => mapChildren (List.map (mapChildren coverCells)) x) ∘ fun (x : List (List Str) × Nat) => encodeSheet f ("Sheet" ++ toString (x.2 + 1)) x.1) d.zipIdx =
      List.map (fun (p : List (List Str) × Nat) => mapChildren (List.map (mapChildren coverCells)) (encodeSheet f ("Sheet" ++ toString (p.2 + 1)) p.1)) d.zipIdx := by
    apply List.map_congr_left; intro p _; rfl
  rw [hmap]
  exact filter_tag_map _ "table:table" _ (fun a => by rw [mapChildren_tag]; rfl)

/-- **decode ∘ encode with covered cells**: as `C15_decode_encode`, for documents in which every second cell of every row is
stored as a cell covered by a merge -/
theorem C15_decode_encode_covered (f : OdsFeatures) (hf : f.rowRuns = false) (d : OdsDoc) (k : Nat) (hk1 : 1 ≤ k) (hk2 : k ≤ d.length)
    (hsmall : ∀ r ∈ d[k - 1]'(by omega), r.length < 10 ^ maxStrDigits)
    (hcells : ∀ r ∈ d[k - 1]'(by omega), ∀ t ∈ r, t.length < 10 ^ maxStrDigits) :
    odsRows (some (coverDoc (encodeDoc f d))) k = .rows ((d[k - 1]'(by omega)).map (·.map some)) := by
  unfold odsRows
  simp only [tables_of_coverDoc, List.length_map, List.length_zipIdx]
  have h1 : ¬ (d.length < k ∨ k < 1) := by omega
  simp only [Bool.or_eq_true, decide_eq_true_eq, h1, if_false]
  have hget : (d.zipIdx.map (fun (p : List (List Str) × Nat) => mapChildren (List.map (mapChildren coverCells)) (encodeSheet f ("Sheet" ++ toString (p.2 + 1)) p.1)))[k - 1]? =
      some (mapChildren (List.map (mapChildren coverCells)) (encodeSheet f ("Sheet" ++ toString (k - 1 + 1)) (d[k - 1]'(by omega)))) := by
    rw [List.getElem?_map, List.getElem?_zipIdx]
    have : d[k - 1]? = some (d[k - 1]'(by omega)) := List.getElem?_eq_getElem (by omega)
    simp [this]
  rw [hget]
  simp only []
  have hrows : tableRowsIn (mapChildren (List.map (mapChildren coverCells)) (encodeSheet f ("Sheet" ++ toString (k - 1 + 1)) (d[k - 1]'(by omega)))).children =
      (d[k - 1]'(by omega)).map (fun r => mapChildren coverCells (encodeRow f r 1)) := by
    rw [mapChildren_children]
    unfold encodeSheet Xml.children
    simp only [hf, Bool.false_eq_true, if_false]
    exact tableRowsIn_coverRows f _
  rw [hrows, odsRowsOf_congr (fun r => mapChildren coverCells (encodeRow f r 1)) (fun r => encodeRow f r 1) _
    (fun r _ => odsRow_cover_encodeRow f r 1), odsRowsOf_encoded f _ hsmall hcells]

theorem tableRowsIn_single : ∀ rows : List Xml, (∀ r ∈ rows, tableRowsOf r = [r]) → tableRowsIn rows = rows
  | [], _ => tableRowsIn_nil
  | r :: rest, h => by
    rw [tableRowsIn_cons, h r (by simp), tableRowsIn_single rest (fun x hx => h x (by simp [hx]))]; rfl

/-- rows of any kind wrapped into header rows, outline groups and plain row groups are found in document order -/
theorem tableRowsIn_groupRows_any (rows : List Xml) (h : ∀ r ∈ rows, tableRowsOf r = [r]) : tableRowsIn (groupRows rows) = rows := by
  match rows, h with
  | [], _ => unfold groupRows; exact tableRowsIn_nil
  | [a], h => exact tableRowsIn_single [a] h
  | [a, b], h => exact tableRowsIn_single [a, b] h
  | a :: b :: c :: rest, h =>
    have hrest := tableRowsIn_single rest (fun x hx => h x (by simp [hx]))
    unfold groupRows
    rw [tableRowsIn_cons, tableRowsIn_cons, tableRowsIn_cons, tableRowsIn_nil, tableRowsOf_header, tableRowsOf_group, tableRowsOf_plain,
      tableRowsIn_cons, tableRowsIn_nil, tableRowsIn_cons, tableRowsIn_cons, tableRowsIn_nil, tableRowsOf_group, tableRowsIn_cons, tableRowsIn_nil,
      h a (by simp), h b (by simp), h c (by simp), hrest]
    simp only [List.append_nil, List.cons_append, List.nil_append]

theorem tables_of_regroup_coverDoc (f : OdsFeatures) (d : OdsDoc) :
    (((regroupDoc (coverDoc (encodeDoc f d))).childrenTagged "office:body").flatMap (·.childrenTagged "office:spreadsheet")).flatMap
      (·.childrenTagged "table:table") =
      d.zipIdx.map (fun (p : List (List Str) × Nat) =>
        mapChildren groupRows (mapChildren (List.map (mapChildren coverCells)) (encodeSheet f ("Sheet" ++ toString (p.2 + 1)) p.1))) := by
  unfold regroupDoc coverDoc encodeDoc
  simp only [mapChildren, Xml.childrenTagged, Xml.children, Xml.tag, List.map_cons, List.map_nil, List.filter_cons, beq_self_eq_true, if_true,
    List.filter_nil, List.flatMap_cons, List.flatMap_nil, List.append_nil, List.map_map]
  exact filter_tag_map (fun (p : List (List Str) × Nat) => mapChildren groupRows (mapChildren (List.map (mapChildren coverCells)) (encodeSheet f ("Sheet" ++ toString (p.2 + 1)) p.1)))
    "table:table" d.zipIdx (fun a => by rw [mapChildren_tag, mapChildren_tag]; rfl)

/-- **decode ∘ encode with both**: covered cells in rows that sit in row containers -/
theorem C15_decode_encode_grouped_covered (f : OdsFeatures) (hf : f.rowRuns = false) (d : OdsDoc) (k : Nat) (hk1 : 1 ≤ k) (hk2 : k ≤ d.length)
    (hsmall : ∀ r ∈ d[k - 1]'(by omega), r.length < 10 ^ maxStrDigits)
    (hcells : ∀ r ∈ d[k - 1]'(by omega), ∀ t ∈ r, t.length < 10 ^ maxStrDigits) :
    odsRows (some (regroupDoc (coverDoc (encodeDoc f d)))) k = .rows ((d[k - 1]'(by omega)).map (·.map some)) := by
  unfold odsRows
  simp only [tables_of_regroup_coverDoc, List.length_map, List.length_zipIdx]
  have h1 : ¬ (d.length < k ∨ k < 1) := by omega
  simp only [Bool.or_eq_true, decide_eq_true_eq, h1, if_false]
  have hget : (d.zipIdx.map (fun (p : List (List Str) × Nat) =>
        mapChildren groupRows (mapChildren (List.map (mapChildren coverCells)) (encodeSheet f ("Sheet" ++ toString (p.2 + 1)) p.1))))[k - 1]? =
      some (mapChildren groupRows (mapChildren (List.map (mapChildren coverCells)) (encodeSheet f ("Sheet" ++ toString (k - 1 + 1)) (d[k - 1]'(by omega))))) := by
    rw [List.getElem?_map, List.getElem?_zipIdx]
    have : d[k - 1]? = some (d[k - 1]'(by omega)) := List.getElem?_eq_getElem (by omega)
    simp [this]
  rw [hget]
  simp only []
  have hrows : tableRowsIn (mapChildren groupRows (mapChildren (List.map (mapChildren coverCells)) (encodeSheet f ("Sheet" ++ toString (k - 1 + 1)) (d[k - 1]'(by omega))))).children =
      (d[k - 1]'(by omega)).map (fun r => mapChildren coverCells (encodeRow f r 1)) := by
    rw [mapChildren_children, mapChildren_children]
    unfold encodeSheet Xml.children
    simp only [hf, Bool.false_eq_true, if_false, List.map_map]
    apply tableRowsIn_groupRows_any
    intro r hr
    simp only [List.mem_map, Function.comp] at hr
    obtain ⟨row, _, rfl⟩ := hr
    unfold encodeRow mapChildren
    rw [tableRowsOf]
    simp
  rw [hrows, odsRowsOf_congr (fun r => mapChildren coverCells (encodeRow f r 1)) (fun r => encodeRow f r 1) _
    (fun r _ => odsRow_cover_encodeRow f r 1), odsRowsOf_encoded f _ hsmall hcells]

/-- Requesting a sheet the document does not have fails with a data-format error, also when the rows of the document sit in row
containers or store covered cells. -/
theorem C15_missing_sheet_grouped_covered (f : OdsFeatures) (d : OdsDoc) (k : Nat) (h : d.length < k) :
    odsRows (some (regroupDoc (encodeDoc f d))) k = .formatError ∧ odsRows (some (coverDoc (encodeDoc f d))) k = .formatError := by
  constructor
  · unfold odsRows
    simp only [tables_of_regroupDoc, List.length_map, List.length_zipIdx]
    simp [h]
  · unfold odsRows
    simp only [tables_of_coverDoc, List.length_map, List.length_zipIdx]
    simp [h]

/-- cells covered by a merge (`table:covered-table-cell`) take up their column (before the repair they were skipped and the cells
after them moved to the left) -/
example : odsRows (some (coverDoc (encodeDoc { colRuns := true } [[[['a'], [], ['c'], ['c']], [['x'], ['y']]]]))) 1
    = .rows [[some ['a'], some [], some ['c'], some ['c']], [some ['x'], some ['y']]] := by decide +kernel

/-- non-vacuity: column runs and spans on, two sheets: the hypotheses of the theorem are met -/
example : odsRows (some (encodeDoc { colRuns := true, spans := true } [[[['x']]], [[['a'], ['a'], ['a'], []], [['b']]]])) 2
    = .rows [[some ['a'], some ['a'], some ['a'], some []], [some ['b']]] :=
  C15_decode_encode { colRuns := true, spans := true } rfl _ 2 (by decide) (by decide)
    (by intro r hr; simp at hr; rcases hr with rfl | rfl <;> simp [maxStrDigits] <;> exact Nat.lt_of_lt_of_le (by decide : _ < 10 ^ 1) (Nat.pow_le_pow_right (by decide) (by decide)))
    (by
      intro r hr t ht
      have h1 : t.length ≤ 1 := by
        simp at hr
        rcases hr with rfl | rfl <;> simp at ht
        · rcases ht with rfl | rfl <;> simp
        · subst ht; simp
      exact Nat.lt_of_le_of_lt h1 (Nat.one_lt_pow (by simp [maxStrDigits]) (by decide)))

end Cutplace.Props
