import Cutplace.Proofs.OdsLemmas
/-
C15  ODS sheets are read as the logical table they contain.

`odsRows` is the transcription of `rowio.ods_rows` over an ElementTree-shaped tree; `encodeDoc f d`
stores a document `d` (sheets of rows of cell texts) as ODF content using the optional features `f`.
Full statement (target): `odsRows (encodeDoc f d) k = rows of the k-th sheet` for every `f`.
On the current code this holds — and is proved — for every document when at most the column-run
compression is used (`C15_decode_encode_partial`); for each of the other four features a proved
counterexample shows the reader returning something else (open known findings).
-/
namespace Cutplace.Props
open Cutplace Cutplace.Spec

/-- run-length compression of equal adjacent cells (or rows) loses nothing -/
theorem C15_runs_lossless {α} [DecidableEq α] (l : List α) : expandRuns (runs l) = l := expandRuns_runs l

theorem tables_of_encodeDoc (f : OdsFeatures) (d : OdsDoc) :
    (((encodeDoc f d).childrenTagged "office:body").flatMap (·.childrenTagged "office:spreadsheet")).flatMap
      (·.childrenTagged "table:table") = d.zipIdx.map (fun (p : List (List Str) × Nat) => encodeSheet f ("Sheet" ++ toString (p.2 + 1)) p.1) := by
  unfold encodeDoc
  simp only [Xml.childrenTagged, Xml.children, Xml.tag, List.filter_cons, beq_self_eq_true, if_true, List.filter_nil,
    List.flatMap_cons, List.flatMap_nil, List.append_nil]
  have hmap : d.zipIdx.map (fun x => match x with | (rows, i) => encodeSheet f ("Sheet" ++ toString (i + 1)) rows) =
      d.zipIdx.map (fun (p : List (List Str) × Nat) => encodeSheet f ("Sheet" ++ toString (p.2 + 1)) p.1) := by
    apply List.map_congr_left; intro p _; rfl
  rw [hmap]
  exact filter_tag_map _ "table:table" _ (fun a => rfl)

/-- **Partial.** For every document, every sheet number inside it and any encoding that uses at most
column runs (`table:number-columns-repeated`), reading sheet `k` returns exactly the rows and cell
texts of the k-th sheet (empty cells as empty strings).  Rows are narrower than `10 ^ 4300` cells: a
repeat count with more digits than that is beyond CPython's `int()` conversion limit. -/
theorem C15_decode_encode_partial (f : OdsFeatures) (hf : f.plain) (d : OdsDoc) (k : Nat) (hk1 : 1 ≤ k) (hk2 : k ≤ d.length)
    (hsmall : ∀ r ∈ d[k - 1]'(by omega), r.length < 10 ^ maxStrDigits) :
    odsRows (some (encodeDoc f d)) k = .rows ((d[k - 1]'(by omega)).map (·.map some)) := by
  unfold odsRows
  simp only [tables_of_encodeDoc, List.length_map, List.length_zipIdx]
  have h1 : ¬ (d.length < k ∨ k < 1) := by omega
  simp only [Bool.or_eq_true, decide_eq_true_eq, h1, if_false]
  have hget : (d.zipIdx.map (fun (p : List (List Str) × Nat) => encodeSheet f ("Sheet" ++ toString (p.2 + 1)) p.1))[k - 1]? =
      some (encodeSheet f ("Sheet" ++ toString (k - 1 + 1)) (d[k - 1]'(by omega))) := by
    rw [List.getElem?_map, List.getElem?_zipIdx]
    have : d[k - 1]? = some (d[k - 1]'(by omega)) := List.getElem?_eq_getElem (by omega)
    simp [this]
  rw [hget]
  simp only []
  obtain ⟨hr, _, _, _⟩ := hf
  have hrows : (encodeSheet f ("Sheet" ++ toString (k - 1 + 1)) (d[k - 1]'(by omega))).childrenTagged "table:table-row" =
      (d[k - 1]'(by omega)).map (fun r => encodeRow f r 1) := by
    unfold encodeSheet Xml.childrenTagged Xml.children
    simp only [hr, Bool.false_eq_true, if_false]
    exact filter_tag_map _ "table:table-row" _ (fun a => rfl)
  rw [hrows, odsRowsOf_encoded f ⟨hr, by assumption, by assumption, by assumption⟩ _ hsmall]

/-- Requesting a sheet the document does not have fails with a data-format error. -/
theorem C15_missing_sheet (f : OdsFeatures) (d : OdsDoc) (k : Nat) (h : d.length < k) :
    odsRows (some (encodeDoc f d)) k = .formatError := by
  unfold odsRows
  simp only [tables_of_encodeDoc, List.length_map, List.length_zipIdx]
  simp [h]

/-- A container that cannot be opened or parsed (not a zip archive, no content.xml, malformed XML)
fails with a data-format error. -/
theorem C15_container (k : Nat) : odsRows none k = .formatError := rfl

/-- A repeat count that is not a number or not positive fails with a data-format error. -/
theorem C15_bad_repeat :
    (odsRow (.node "table:table-row" [] none [.node "table:table-cell" [("table:number-columns-repeated", ['0'])] none [] none] none)
      = some none) ∧
    (odsRow (.node "table:table-row" [] none [.node "table:table-cell" [("table:number-columns-repeated", ['x'])] none [] none] none)
      = some none) := by
  constructor <;> rfl

/-- The full statement fails for the four other features: -/
theorem C15_row_runs_counterexample :
    odsRows (some (encodeDoc { rowRuns := true } [[[['a']], [['a']]]])) 1 ≠ .rows [[some ['a']], [some ['a']]] := by decide
theorem C15_whitespace_counterexample :
    odsRows (some (encodeDoc { whitespace := true } [[["a  b".toList]]])) 1 ≠ .rows [[some "a  b".toList]] := by decide
theorem C15_spans_counterexample :
    odsRows (some (encodeDoc { spans := true } [[[['a']]]])) 1 ≠ .rows [[some ['a']]] := by decide
theorem C15_paragraphs_counterexample :
    odsRows (some (encodeDoc { paragraphs := true } [[["l1\nl2".toList]]])) 1 ≠ .rows [[some "l1\nl2".toList]] := by decide

/-- non-vacuity: column runs on, two sheets: the hypotheses of the partial theorem are met -/
example : odsRows (some (encodeDoc { colRuns := true } [[[['x']]], [[['a'], ['a'], ['a'], []], [['b']]]])) 2
    = .rows [[some ['a'], some ['a'], some ['a'], some []], [some ['b']]] :=
  C15_decode_encode_partial { colRuns := true } ⟨rfl, rfl, rfl, rfl⟩ _ 2 (by decide) (by decide)
    (by intro r hr; simp at hr; rcases hr with rfl | rfl <;> simp [maxStrDigits] <;> exact Nat.lt_of_lt_of_le (by decide : _ < 10 ^ 1) (Nat.pow_le_pow_right (by decide) (by decide)))

end Cutplace.Props
