import Cutplace.Model.Checks
namespace Cutplace.Props
theorem C07_placeholder : True := trivial
end Cutplace.Props
