import Cutplace.Proofs.EngineLemmas
/-
C07  Header rows are skipped; the validation limit bounds validation, not data.
-/
namespace Cutplace.Props
open Cutplace

variable {σ : Type}

/-- Rows inside the header window are consumed without any effect: no event, no call, no change of
state — whatever they contain. -/
theorem C07_header_skip (cfg : ReaderCfg) (cols : List Column) (checks : List (Check σ)) (fault : Bool)
    (n : Nat) (hdr data : List Row) (st : RState σ) (h : n + hdr.length ≤ cfg.header) :
    readLoop cfg cols checks fault n (hdr ++ data) st = readLoop cfg cols checks fault (n + hdr.length) data st := by
  induction hdr generalizing n with
  | nil => simp
  | cons r rs ih =>
    simp only [List.cons_append, List.length_cons] at h ⊢
    rw [readLoop]
    have : ¬ (n + 1 > cfg.header) := by omega
    simp only [this, if_false]
    rw [ih (n + 1) (by omega)]
    congr 1; omega

/-- The header rows are neither validated nor returned, whatever they contain: replacing them by
any other rows of the same number changes nothing. -/
theorem C07_header_blind (cfg : ReaderCfg) (cols : List Column) (checks : List (Check σ)) (fault : Bool)
    (hdr hdr' data : List Row) (before : List σ) (h : hdr.length = cfg.header) (h' : hdr'.length = cfg.header) :
    readRows cfg cols checks fault (hdr ++ data) before = readRows cfg cols checks fault (hdr' ++ data) before := by
  unfold readRows
  rw [C07_header_skip cfg cols checks fault 0 hdr data _ (by omega),
      C07_header_skip cfg cols checks fault 0 hdr' data _ (by omega), h, h']

/-- Beyond the validation limit rows are returned unchanged and unvalidated: one `row` event each,
counted as accepted, no call into any field or check, check states untouched. -/
theorem C07_beyond_limit (cfg : ReaderCfg) (cols : List Column) (checks : List (Check σ)) (fault : Bool)
    (l n : Nat) (rows : List Row) (st : RState σ) (hl : cfg.limit = some l) (hn : l ≤ n) (hh : cfg.header ≤ n) :
    let r := readLoop cfg cols checks fault n rows st
    r.events = rows.map Event.row ∧ r.log = [] ∧ r.st.sts = st.sts ∧
      r.st.accepted = st.accepted + rows.length ∧ r.st.rejected = st.rejected ∧
      r.final = (if fault then .format (n + rows.length) else .exhausted) := by
  induction rows generalizing n st with
  | nil => simp [readLoop]
  | cons row rest ih =>
    rw [readLoop]
    have h1 : n + 1 > cfg.header := by omega
    have h2 : inLimit cfg.limit (n + 1) = false := by simp [inLimit, hl]; omega
    simp only [h1, if_true, h2, Bool.false_eq_true, if_false]
    have := ih (n + 1) { st with accepted := st.accepted + 1 } (by omega) (by omega)
    simp only [] at this ⊢
    obtain ⟨e1, e2, e3, e4, e5, e6⟩ := this
    refine ⟨by simp [e1], e2, e3, by simp [e4]; omega, e5, ?_⟩
    rw [e6]; simp only [List.length_cons]
    split <;> simp <;> omega

/-- `N = 0` validates nothing: every data row is returned as it is and nothing is called. -/
theorem C07_zero (mode : Mode) (header : Nat) (cols : List Column) (checks : List (Check σ))
    (hdr data : List Row) (before : List σ) (h : hdr.length = header) :
    let r := readRows ⟨mode, header, some 0⟩ cols checks false (hdr ++ data) before
    r.events = data.map Event.row ∧ r.log = resetCalls checks.length ∧ r.final = .exhausted ∧ r.st.rejected = 0 := by
  unfold readRows
  simp only []
  rw [C07_header_skip ⟨mode, header, some 0⟩ cols checks false 0 hdr data _ (by simp; omega)]
  have := C07_beyond_limit ⟨mode, header, some 0⟩ cols checks false 0 (0 + hdr.length) data
    ⟨checks.map (·.reset), 0, 0⟩ rfl (by omega) (by simp; omega)
  simp only [Nat.zero_add] at this ⊢
  obtain ⟨e1, e2, _, _, e5, e6⟩ := this
  simp [e1, e2, e5, e6]

/-- An error is only ever reported for a row after the header and not beyond the limit. -/
theorem C07_errors_in_window (cfg : ReaderCfg) (cols : List Column) (checks : List (Check σ)) (fault : Bool)
    (n : Nat) (rows : List Row) (st : RState σ) (line : Nat) (e : RowErr)
    (h : Event.err line e ∈ (readLoop cfg cols checks fault n rows st).events ∨
         (readLoop cfg cols checks fault n rows st).final = .raised line e) :
    n ≤ line ∧ cfg.header < line + 1 ∧ inLimit cfg.limit (line + 1) = true := by
  induction rows generalizing n st with
  | nil => simp [readLoop] at h; split at h <;> simp at h
  | cons row rest ih =>
    rw [readLoop] at h
    by_cases hh : n + 1 > cfg.header
    · simp only [hh, if_true] at h
      by_cases hl : inLimit cfg.limit (n + 1) = true
      · simp only [hl, if_true] at h
        generalize hv : validateRow cols checks st.sts row n = vr at h
        obtain ⟨sts', err, log⟩ := vr
        simp only [] at h
        cases err with
        | none =>
          simp only [List.mem_cons, reduceCtorEq, false_or] at h
          have := ih (n + 1) _ h
          exact ⟨by omega, this.2⟩
        | some e' =>
          cases hm : cfg.mode with
          | raise =>
            simp only [hm, List.not_mem_nil, false_or, Final.raised.injEq] at h
            obtain ⟨rfl, _⟩ := h
            exact ⟨Nat.le_refl _, by omega, hl⟩
          | yield =>
            simp only [hm, List.mem_cons, Event.err.injEq] at h
            rcases h with (⟨rfl, _⟩ | h) | h
            · exact ⟨Nat.le_refl _, by omega, hl⟩
            · have := ih (n + 1) _ (Or.inl h); exact ⟨by omega, this.2⟩
            · have := ih (n + 1) _ (Or.inr h); exact ⟨by omega, this.2⟩
          | «continue» =>
            simp only [hm] at h
            have := ih (n + 1) _ h
            exact ⟨by omega, this.2⟩
      · simp only [hl, Bool.false_eq_true, if_false, List.mem_cons, reduceCtorEq, false_or] at h
        have := ih (n + 1) _ h
        exact ⟨by omega, this.2⟩
    · simp only [hh, if_false] at h
      have := ih (n + 1) _ h
      exact ⟨by omega, this.2⟩

/-- `CutplaceApp.set_options`: `--until -1` means no limit, `n ≥ 0` means limit `n`, anything below is
a usage error (`none`). -/
def untilOption (n : Int) : Option (Option Nat) :=
  if n = -1 then some none else if n ≥ 0 then some (some n.toNat) else none

theorem C07_cli_until (n : Int) :
    (n = -1 → untilOption n = some none) ∧ (0 ≤ n → untilOption n = some (some n.toNat)) ∧
      (n < -1 → untilOption n = none) := by
  unfold untilOption
  refine ⟨fun h => by simp [h], fun h => ?_, fun h => ?_⟩
  · have : n ≠ -1 := by omega
    simp [this, h]
  · have h1 : n ≠ -1 := by omega
    have h2 : ¬ n ≥ 0 := by omega
    simp [h1, h2]

/-- non-vacuity: header 1, limit 2: the bad third row is beyond the limit and comes back as it is -/
example :
    let col : Column := ⟨fun v => .inr v, fun v => v != ['x']⟩
    (readRows (σ := Unit) ⟨.yield, 1, some 2⟩ [col] [] false [[['x']], [['x']], [['x']]] []).events
      = [.err 1 (.field 0), .row [['x']]] := by decide

/-- **What has been read does not depend on what follows.** Whatever rows - and whatever container fault - come after the rows
`a`: the events a reader has delivered and the calls it has made when it is through with `a` are the beginning of the events and
calls of reading everything.  This is what lets the validate-only API stop after N data rows: nothing behind them is looked at. -/
theorem C07_prefix_blind (cfg : ReaderCfg) (cols : List Column) (checks : List (Check σ)) (fault : Bool) (a b : List Row) (before : List σ) :
    (readRows cfg cols checks false a before).events <+: (readRows cfg cols checks fault (a ++ b) before).events ∧
    (readRows cfg cols checks false a before).log <+: (readRows cfg cols checks fault (a ++ b) before).log := by
  unfold readRows
  have := readLoop_prefix cfg cols checks fault b a 0 ⟨checks.map (·.reset), 0, 0⟩
  exact ⟨this.1, (List.prefix_append_right_inj _).mpr this.2⟩

/-- a reader that is abandoned after `k` events has delivered the same `k` events whatever came after the rows it needed for them -/
theorem C07_stop_blind (cfg : ReaderCfg) (cols : List Column) (checks : List (Check σ)) (fault : Bool) (a b : List Row) (before : List σ)
    (k : Nat) (hk : k ≤ (readRows cfg cols checks false a before).events.length) :
    (readRows cfg cols checks fault (a ++ b) before).events.take k = (readRows cfg cols checks false a before).events.take k := by
  obtain ⟨t, ht⟩ := (C07_prefix_blind cfg cols checks fault a b before).1
  rw [← ht, List.take_append_of_le_length hk]

/-- non-vacuity of `C07_stop_blind`: two rows give two events, so a reader abandoned after two events has delivered the same
whatever follows - here a third row and a container fault -/
example :
    let col : Column := ⟨fun v => .inr v, fun v => v != ['x']⟩
    (readRows (σ := Unit) ⟨.yield, 0, none⟩ [col] [] true ([[['a']], [['x']]] ++ [[['b']]]) []).events.take 2
      = [.row [['a']], .err 1 (.field 0)] := by
  intro col
  rw [C07_stop_blind ⟨.yield, 0, none⟩ [col] [] true [[['a']], [['x']]] [[['b']]] [] 2 (by decide)]
  decide

end Cutplace.Props
