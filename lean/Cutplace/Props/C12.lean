import Cutplace.Proofs.CsvLemmas
import Cutplace.Proofs.CsvRoundTrip
/-
C12  Delimited data round-trips through write and read for every accepted format.

Full statement, proved (`C12_roundtrip`):
  GoodCfg cfg → (∀ r ∈ t, r ≠ []) → ∃ s, renderTable cfg t = some s ∧ parse cfg s = some t
for tables of any size over all characters, for both dialect families cutplace can configure (quote
doubling when the escape character equals the quote character, escape-character otherwise), with and
without quote-all.  `C12_goodcfg_of_accepted` shows that every format the CID loader accepts gives a
`GoodCfg`; `C12_accepted_roundtrip` chains the two.  The model of the csv reader and writer
(`Model/Csv.lean`) is tied to CPython's `_csv` by the exhaustive correspondence in the harness.
-/
namespace Cutplace.Props
open Cutplace Cutplace.Csv

/-- Every delimited format that passes `DataFormat.validate` (with quote and escape characters from
their documented sets, initial-space skipping off) yields a dialect fit for the round trip. -/
theorem C12_goodcfg_of_accepted (df : DataFormat) (hf : df.format = .delimited) (hv : df.validate = true)
    (hq : validQuoteCharacters.contains df.quote = true) (he : df.escape = '"' ∨ df.escape = '\\')
    (hs : df.skipInitialSpace = false) : GoodCfg (ofDataFormat df) := by
  unfold DataFormat.validate at hv
  simp only [hf, Bool.and_eq_true, bne_iff_ne, ne_eq, Bool.not_eq_true', Bool.or_eq_false_iff, beq_eq_false_iff_ne] at hv
  obtain ⟨⟨⟨⟨⟨⟨_, _⟩, h3⟩, _⟩, h5⟩, h6, h7⟩, _⟩ := hv
  have hqn : df.quote ≠ '\n' ∧ df.quote ≠ '\r' := by
    constructor <;> (intro h; rw [h] at hq; exact absurd hq (by decide))
  unfold ofDataFormat
  by_cases heq : df.escape = df.quote
  · simp only [heq, beq_self_eq_true, if_true]
    exact ⟨h6, h7, h5, hqn.1, hqn.2, hs, Or.inl ⟨rfl, rfl⟩⟩
  · have : (df.escape == df.quote) = false := by simpa using heq
    simp only [this, Bool.false_eq_true, if_false]
    refine ⟨h6, h7, h5, hqn.1, hqn.2, hs, Or.inr ⟨rfl, df.escape, rfl, h3, heq, ?_, ?_⟩⟩
    · rcases he with h | h <;> rw [h] <;> decide
    · rcases he with h | h <;> rw [h] <;> decide

/-- **Round trip.** For every good dialect and every table whose rows have at least one cell, cells
of any content (delimiters, quotes, escape characters, CR, LF, CRLF, leading/trailing blanks, empty):
the writer accepts the table and the reader returns exactly that table from the written text. -/
theorem C12_roundtrip (cfg : Cfg) (hg : GoodCfg cfg) (t : List (List (List Char))) (ht : ∀ r ∈ t, r ≠ []) :
    ∃ text, renderTable cfg t = some text ∧ parse cfg text = some t :=
  roundtrip cfg hg t ht

/-- The same for every delimited data format `DataFormat.validate` accepts. -/
theorem C12_accepted_roundtrip (df : DataFormat) (hf : df.format = .delimited) (hv : df.validate = true)
    (hq : validQuoteCharacters.contains df.quote = true) (he : df.escape = '"' ∨ df.escape = '\\')
    (hs : df.skipInitialSpace = false) (t : List (List (List Char))) (ht : ∀ r ∈ t, r ≠ []) :
    ∃ text, renderTable (ofDataFormat df) t = some text ∧ parse (ofDataFormat df) text = some t :=
  roundtrip _ (C12_goodcfg_of_accepted df hf hv hq he hs) t ht

/-- Per-cell core of the argument (doublequote dialect): a quoted cell — opening quote, the cell with every quote
doubled, closing quote — is read as exactly that cell, whatever it contains (delimiters, quotes, CR,
LF, CRLF) and whatever the state of the line splitter; no record is emitted on the way. -/
theorem C12_quoted_cell (cfg : Cfg) (hg : GoodCfg cfg) (hdq : cfg.dq = true) (hesc : cfg.esc = none)
    (f : List Char) (fields : List (List Char)) (out : List (List (List Char))) :
    ∃ l', feedAll cfg { l := .mid, p := { st := .startField, field := [], fields := fields }, out := out }
        (cfg.quote :: bodyDq cfg.quote f ++ [cfg.quote])
      = some { l := l', p := { st := .quoteInQuoted, field := f.reverse, fields := fields }, out := out } := by
  have hq1 := hg.quote_nl
  have hq2 := hg.quote_cr
  obtain ⟨l1, h1⟩ := quoted_body cfg hdq hesc hq1 hq2 f .mid [] fields out
  simp only [List.append_nil] at h1
  have hopen : feed cfg { l := .mid, p := { st := .startField, field := [], fields := fields }, out := out } cfg.quote
      = some { l := .mid, p := { st := .inQuoted, field := [], fields := fields }, out := out } := by
    simp [feed, S.ch, step, stepStartField, isNl, hq1, hq2]
  simp only [List.cons_append, feedAll, hopen, feedAll_append, h1, Option.bind_some]
  cases l1 <;> simp [feed, S.ch, S.eol, step, hdq, hesc, hq1, hq2]

/-- non-vacuity: the default format, a table whose cells contain the delimiter, quotes and line breaks -/
example :
    let cfg : Cfg := { delim := ',', quote := '"', esc := none, dq := true, quoteAll := false }
    let t := [["a,b".toList, "say \"hi\"".toList], ["line1\r\nline2".toList, []], [[]]]
    (renderTable cfg t).bind (parse cfg) = some t := by decide

/-- non-vacuity: the escape-character dialect is a `GoodCfg` too -/
example : GoodCfg { delim := ';', quote := '\'', esc := some '\\', dq := false, quoteAll := true } :=
  ⟨by decide, by decide, by decide, by decide, by decide, rfl,
   Or.inr ⟨rfl, '\\', rfl, by decide, by decide, by decide, by decide⟩⟩

/-- the hypotheses are needed: with the item delimiter equal to the escape character the writer's
output is read back differently (this is what `DataFormat.validate` refuses since the C12 repair) -/
example :
    let cfg : Cfg := { delim := '\\', quote := '"', esc := some '\\', dq := false, quoteAll := false }
    (renderTable cfg [[['a'], ['b']]]).bind (parse cfg) ≠ some [[['a'], ['b']]] := by decide

end Cutplace.Props
