import Cutplace.Proofs.CsvLemmas
/-
C12  Delimited data round-trips through write and read for every accepted format.

Full statement (target):
  GoodCfg cfg → (∀ r ∈ t, r ≠ []) → ∃ s, renderTable cfg t = some s ∧ parse cfg s = some t
for tables of any size over all characters.  Proved so far: every format the CID loader accepts gives a
`GoodCfg` (`C12_goodcfg_of_accepted`), and the heart of the reader argument for the default
(doublequote) dialect — a quoted cell with arbitrary content, embedded delimiters, quotes, CR and LF
included, is read back exactly (`C12_quoted_cell_partial`).  The lifting to rows and tables and the
escape-character dialect are validated by the exhaustive correspondence only.
-/
namespace Cutplace.Props
open Cutplace Cutplace.Csv

/-- what a csv dialect needs for the round trip -/
def GoodCfg (cfg : Cfg) : Prop :=
  cfg.delim ≠ '\n' ∧ cfg.delim ≠ '\r' ∧ cfg.delim ≠ cfg.quote ∧ cfg.quote ≠ '\n' ∧ cfg.quote ≠ '\r' ∧
  cfg.skipInitialSpace = false ∧
  ((cfg.dq = true ∧ cfg.esc = none) ∨
   (cfg.dq = false ∧ ∃ e, cfg.esc = some e ∧ e ≠ cfg.delim ∧ e ≠ cfg.quote ∧ e ≠ '\n' ∧ e ≠ '\r'))

/-- Every delimited format that passes `DataFormat.validate` (with quote and escape characters from
their documented sets, initial-space skipping off) yields a dialect fit for the round trip. -/
theorem C12_goodcfg_of_accepted (df : DataFormat) (hf : df.format = .delimited) (hv : df.validate = true)
    (hq : validQuoteCharacters.contains df.quote = true) (he : df.escape = '"' ∨ df.escape = '\\')
    (hs : df.skipInitialSpace = false) : GoodCfg (ofDataFormat df) := by
  unfold DataFormat.validate at hv
  simp only [hf, Bool.and_eq_true, bne_iff_ne, ne_eq, Bool.not_eq_true', Bool.or_eq_false_iff, beq_eq_false_iff_ne] at hv
  obtain ⟨⟨⟨⟨⟨⟨_, _⟩, h3⟩, _⟩, h5⟩, h6, h7⟩, _⟩ := hv
  have hqn : df.quote ≠ '\n' ∧ df.quote ≠ '\r' := by
    constructor <;> (intro h; rw [h] at hq; exact absurd hq (by decide))
  unfold ofDataFormat GoodCfg
  by_cases heq : df.escape = df.quote
  · simp only [heq, beq_self_eq_true, if_true]
    exact ⟨h6, h7, h5, hqn.1, hqn.2, hs, Or.inl ⟨trivial, trivial⟩⟩
  · have : (df.escape == df.quote) = false := by simpa using heq
    simp only [this, Bool.false_eq_true, if_false]
    refine ⟨h6, h7, h5, hqn.1, hqn.2, hs, Or.inr ⟨trivial, df.escape, rfl, h3, heq, ?_, ?_⟩⟩
    · rcases he with h | h <;> rw [h] <;> decide
    · rcases he with h | h <;> rw [h] <;> decide

/-- **Partial.** Doublequote dialect: a quoted cell — opening quote, the cell with every quote
doubled, closing quote — is read as exactly that cell, whatever it contains (delimiters, quotes, CR,
LF, CRLF) and whatever the state of the line splitter; no record is emitted on the way. -/
theorem C12_quoted_cell_partial (cfg : Cfg) (hg : GoodCfg cfg) (hdq : cfg.dq = true) (hesc : cfg.esc = none)
    (f : List Char) (fields : List (List Char)) (out : List (List (List Char))) :
    ∃ l', feedAll cfg { l := .mid, p := { st := .startField, field := [], fields := fields }, out := out }
        (cfg.quote :: bodyDq cfg.quote f ++ [cfg.quote])
      = some { l := l', p := { st := .quoteInQuoted, field := f.reverse, fields := fields }, out := out } := by
  obtain ⟨_, _, _, hq1, hq2, _, _⟩ := hg
  obtain ⟨l1, h1⟩ := quoted_body cfg hdq hesc hq1 hq2 f .mid [] fields out
  simp only [List.append_nil] at h1
  have hopen : feed cfg { l := .mid, p := { st := .startField, field := [], fields := fields }, out := out } cfg.quote
      = some { l := .mid, p := { st := .inQuoted, field := [], fields := fields }, out := out } := by
    simp [feed, S.ch, step, stepStartField, isNl, hq1, hq2]
  simp only [List.cons_append, feedAll, hopen, feedAll_append, h1, Option.bind_some]
  cases l1 <;> simp [feed, S.ch, S.eol, step, hdq, hesc, hq1, hq2]

/-- non-vacuity: the default format, a table whose cells contain the delimiter, quotes and line breaks -/
example :
    let cfg : Cfg := { delim := ',', quote := '"', esc := none, dq := true, quoteAll := false }
    let t := [["a,b".toList, "say \"hi\"".toList], ["line1\r\nline2".toList, []], [[]]]
    (renderTable cfg t).bind (parse cfg) = some t := by decide

end Cutplace.Props
