import Cutplace.Model.Checks
namespace Cutplace.Props
theorem C06_placeholder : True := trivial
end Cutplace.Props
