import Cutplace.Proofs.EngineLemmas
/-
C06  Error-handling modes agree with each other and account for every row.
All theorems hold for every column list, every check list (any state type), every table, every
header / limit setting, every starting state and with or without a container fault at the end.
-/
namespace Cutplace.Props
open Cutplace

variable {σ : Type}

/-- `'continue'` produces exactly the accepted rows of `'yield'`, ends the same way, leaves the
same check states and counters and makes the same calls. -/
theorem C06_continue (header : Nat) (limit : Option Nat) (cols : List Column) (checks : List (Check σ))
    (fault : Bool) (n : Nat) (rows : List Row) (st : RState σ) :
    let y := readLoop ⟨.yield, header, limit⟩ cols checks fault n rows st
    let c := readLoop ⟨.continue, header, limit⟩ cols checks fault n rows st
    c.events = y.events.filter Event.isRow ∧ c.final = y.final ∧ c.st.sts = y.st.sts ∧
      c.st.accepted = y.st.accepted ∧ c.st.rejected = y.st.rejected ∧ c.log = y.log := by
  induction rows generalizing n st with
  | nil => simp [readLoop]
  | cons row rest ih =>
    simp only [readLoop]
    by_cases hh : n + 1 > header
    · simp only [hh, if_true]
      by_cases hl : inLimit limit (n + 1) = true
      · simp only [hl, if_true]
        generalize hv : validateRow cols checks st.sts row n = vr
        obtain ⟨sts', err, log⟩ := vr
        simp only []
        cases err with
            | none =>
              have := ih (n + 1) { st with sts := sts', accepted := st.accepted + 1 }
              simp only [] at this ⊢
              obtain ⟨h1, h2, h3, h4, h5, h6⟩ := this
              simp [h1, h2, h3, h4, h5, h6, List.filter_cons]
            | some e =>
              have := ih (n + 1) { st with sts := sts', rejected := st.rejected + 1 }
              simp only [] at this ⊢
              obtain ⟨h1, h2, h3, h4, h5, h6⟩ := this
              simp [h1, h2, h3, h4, h5, h6]
      · simp only [hl, if_false, Bool.false_eq_true]
        have := ih (n + 1) { st with accepted := st.accepted + 1 }
        simp only [] at this ⊢
        obtain ⟨h1, h2, h3, h4, h5, h6⟩ := this
        simp [h1, h2, h3, h4, h5, h6, List.filter_cons]
    · simp only [hh, if_false]
      exact ih (n + 1) st

/-- first error event of a list -/
def firstErr : List Event → Option (Nat × RowErr)
  | [] => none
  | .row _ :: rest => firstErr rest
  | .err l e :: _ => some (l, e)

/-- `'raise'` produces the rows before the first rejection of `'yield'` and then raises that same
error (same row, same kind, same culprit); without a rejection it ends exactly like `'yield'`. -/
theorem C06_raise (header : Nat) (limit : Option Nat) (cols : List Column) (checks : List (Check σ))
    (fault : Bool) (n : Nat) (rows : List Row) (st : RState σ) :
    let y := readLoop ⟨.yield, header, limit⟩ cols checks fault n rows st
    let r := readLoop ⟨.raise, header, limit⟩ cols checks fault n rows st
    r.events = y.events.takeWhile Event.isRow ∧
      r.final = (match firstErr y.events with
                 | some (l, e) => Final.raised l e
                 | none => y.final) := by
  induction rows generalizing n st with
  | nil => simp [readLoop, firstErr]
  | cons row rest ih =>
    simp only [readLoop]
    by_cases hh : n + 1 > header
    · simp only [hh, if_true]
      by_cases hl : inLimit limit (n + 1) = true
      · simp only [hl, if_true]
        generalize hv : validateRow cols checks st.sts row n = vr
        obtain ⟨sts', err, log⟩ := vr
        simp only []
        cases err with
            | none =>
              have := ih (n + 1) { st with sts := sts', accepted := st.accepted + 1 }
              simp only [] at this ⊢
              obtain ⟨h1, h2⟩ := this
              simp [h1, h2, firstErr, List.takeWhile_cons]
            | some e => simp [firstErr]
      · simp only [hl, if_false, Bool.false_eq_true]
        have := ih (n + 1) { st with accepted := st.accepted + 1 }
        simp only [] at this ⊢
        obtain ⟨h1, h2⟩ := this
        simp [h1, h2, firstErr, List.takeWhile_cons]
    · simp only [hh, if_false]
      exact ih (n + 1) st

/-- In `'yield'` mode there is exactly one event per data row, in input order: the row itself,
unchanged, or one error located at that row's line (header rows are counted in the line). -/
inductive EventsMatch (header : Nat) : Nat → List Row → List Event → Prop
  | nil (n : Nat) : EventsMatch header n [] []
  | skip (n : Nat) (r : Row) (rs : List Row) (evs : List Event) :
      n + 1 ≤ header → EventsMatch header (n + 1) rs evs → EventsMatch header n (r :: rs) evs
  | row (n : Nat) (r : Row) (rs : List Row) (evs : List Event) :
      header < n + 1 → EventsMatch header (n + 1) rs evs → EventsMatch header n (r :: rs) (.row r :: evs)
  | err (n : Nat) (r : Row) (rs : List Row) (evs : List Event) (e : RowErr) :
      header < n + 1 → EventsMatch header (n + 1) rs evs → EventsMatch header n (r :: rs) (.err n e :: evs)

theorem C06_yield_order (header : Nat) (limit : Option Nat) (cols : List Column) (checks : List (Check σ))
    (fault : Bool) (n : Nat) (rows : List Row) (st : RState σ) :
    EventsMatch header n rows (readLoop ⟨.yield, header, limit⟩ cols checks fault n rows st).events := by
  induction rows generalizing n st with
  | nil => simp [readLoop]; exact .nil n
  | cons row rest ih =>
    simp only [readLoop]
    by_cases hh : n + 1 > header
    · simp only [hh, if_true]
      by_cases hl : inLimit limit (n + 1) = true
      · simp only [hl, if_true]
        generalize hv : validateRow cols checks st.sts row n = vr
        obtain ⟨sts', err, log⟩ := vr
        simp only []
        cases err with
            | none => exact .row n row rest _ hh (ih _ _)
            | some e => exact .err n row rest _ e hh (ih _ _)
      · simp only [hl, if_false, Bool.false_eq_true]
        exact .row n row rest _ hh (ih _ _)
    · simp only [hh, if_false]
      exact .skip n row rest _ (by omega) (ih _ _)

/-- After a complete pass in `'yield'` or `'continue'` mode the accepted and rejected counters add
up to the number of data rows (rows after the header). -/
theorem C06_counters (mode : Mode) (hm : mode ≠ .raise) (header : Nat) (limit : Option Nat)
    (cols : List Column) (checks : List (Check σ)) (fault : Bool) (n : Nat) (rows : List Row) (st : RState σ) :
    let r := readLoop ⟨mode, header, limit⟩ cols checks fault n rows st
    r.st.accepted + r.st.rejected = st.accepted + st.rejected + ((n + rows.length) - max header n) := by
  induction rows generalizing n st with
  | nil => simp [readLoop]; omega
  | cons row rest ih =>
    simp only [readLoop]
    by_cases hh : n + 1 > header
    · simp only [hh, if_true]
      by_cases hl : inLimit limit (n + 1) = true
      · simp only [hl, if_true]
        generalize hv : validateRow cols checks st.sts row n = vr
        obtain ⟨sts', err, log⟩ := vr
        simp only []
        cases err with
            | none =>
              have := ih (n + 1) { st with sts := sts', accepted := st.accepted + 1 }
              simp only [List.length_cons] at this ⊢
              omega
            | some e =>
              cases mode with
              | raise => exact absurd rfl hm
              | yield =>
                have := ih (n + 1) { st with sts := sts', rejected := st.rejected + 1 }
                simp only [List.length_cons] at this ⊢
                omega
              | «continue» =>
                have := ih (n + 1) { st with sts := sts', rejected := st.rejected + 1 }
                simp only [List.length_cons] at this ⊢
                omega
      · simp only [hl, if_false, Bool.false_eq_true]
        have := ih (n + 1) { st with accepted := st.accepted + 1 }
        simp only [List.length_cons] at this ⊢
        omega
    · simp only [hh, if_false]
      have := ih (n + 1) st
      simp only [List.length_cons] at this ⊢
      omega

/-- `Reader.rows()` starts with zeroed counters, so a full pass over `rows` accounts for every data row -/
theorem C06_counters_total (mode : Mode) (hm : mode ≠ .raise) (header : Nat) (limit : Option Nat)
    (cols : List Column) (checks : List (Check σ)) (fault : Bool) (rows : List Row) (before : List σ) :
    let r := readRows ⟨mode, header, limit⟩ cols checks fault rows before
    r.st.accepted + r.st.rejected = rows.length - header := by
  have := C06_counters mode hm header limit cols checks fault 0 rows ⟨checks.map (·.reset), 0, 0⟩
  simp only [readRows] at this ⊢
  simp at this ⊢
  omega

/-- A container fault after the listed rows ends the run with a data-format error in every mode
that reaches it (`'raise'` may stop earlier at a rejected row). -/
theorem C06_container_fault (mode : Mode) (header : Nat) (limit : Option Nat)
    (cols : List Column) (checks : List (Check σ)) (n : Nat) (rows : List Row) (st : RState σ) :
    let r := readLoop ⟨mode, header, limit⟩ cols checks true n rows st
    r.final = .format (n + rows.length) ∨ (mode = .raise ∧ ∃ l e, r.final = .raised l e) := by
  induction rows generalizing n st with
  | nil => simp [readLoop]
  | cons row rest ih =>
    simp only [readLoop]
    by_cases hh : n + 1 > header
    · simp only [hh, if_true]
      by_cases hl : inLimit limit (n + 1) = true
      · simp only [hl, if_true]
        generalize hv : validateRow cols checks st.sts row n = vr
        obtain ⟨sts', err, log⟩ := vr
        simp only []
        cases err with
            | none =>
              have := ih (n + 1) { st with sts := sts', accepted := st.accepted + 1 }
              simp only [List.length_cons] at this ⊢
              rcases this with h | h
              · left; rw [h]; congr 1; omega
              · right; exact h
            | some e =>
              cases mode with
              | raise => right; exact ⟨rfl, n, e, rfl⟩
              | yield =>
                have := ih (n + 1) { st with sts := sts', rejected := st.rejected + 1 }
                simp only [List.length_cons] at this ⊢
                rcases this with h | h
                · left; rw [h]; congr 1; omega
                · right; exact h
              | «continue» =>
                have := ih (n + 1) { st with sts := sts', rejected := st.rejected + 1 }
                simp only [List.length_cons] at this ⊢
                rcases this with h | h
                · left; rw [h]; congr 1; omega
                · right; exact h
      · simp only [hl, if_false, Bool.false_eq_true]
        have := ih (n + 1) { st with accepted := st.accepted + 1 }
        simp only [List.length_cons] at this ⊢
        rcases this with h | h
        · left; rw [h]; congr 1; omega
        · right; exact h
    · simp only [hh, if_false]
      have := ih (n + 1) st
      simp only [List.length_cons] at this ⊢
      rcases this with h | h
      · left; rw [h]; congr 1; omega
      · right; exact h

/-- non-vacuity: a two-column table with a rejected middle row -/
example :
    let col : Column := ⟨fun v => .inr v, fun v => v != ['x']⟩
    (readLoop (σ := Unit) ⟨.yield, 1, none⟩ [col] [] false 0 [[['h']], [['a']], [['x']], [['b']]] ⟨[], 0, 0⟩).events
      = [.row [['a']], .err 2 (.field 0), .row [['b']]] := by
  decide

/-- **A malformed container changes nothing before it is reached**: reading rows that are followed by a container fault delivers
the same events, makes the same calls and leaves the same counters and check states as reading the rows alone - in every mode;
only the way the pass ends differs (`C06_container_fault`). -/
theorem C06_fault_transparent (cfg : ReaderCfg) (cols : List Column) (checks : List (Check σ)) (n : Nat) (rows : List Row) (st : RState σ) :
    (readLoop cfg cols checks true n rows st).events = (readLoop cfg cols checks false n rows st).events ∧
    (readLoop cfg cols checks true n rows st).log = (readLoop cfg cols checks false n rows st).log ∧
    (readLoop cfg cols checks true n rows st).st = (readLoop cfg cols checks false n rows st).st := by
  induction rows generalizing n st with
  | nil => simp [readLoop]
  | cons row rest ih =>
    rw [readLoop, readLoop]
    simp only []
    split
    · split
      · split
        · have := ih (n + 1) { st with sts := (validateRow cols checks st.sts row n).1, accepted := st.accepted + 1 }
          exact ⟨by rw [this.1], by rw [this.2.1], this.2.2⟩
        · have := ih (n + 1) { st with sts := (validateRow cols checks st.sts row n).1, rejected := st.rejected + 1 }
          cases cfg.mode with
          | raise => exact ⟨rfl, rfl, rfl⟩
          | yield => exact ⟨by rw [this.1], by rw [this.2.1], this.2.2⟩
          | «continue» => exact ⟨this.1, by rw [this.2.1], this.2.2⟩
      · have := ih (n + 1) { st with accepted := st.accepted + 1 }
        exact ⟨by rw [this.1], this.2.1, this.2.2⟩
    · exact ih (n + 1) st

end Cutplace.Props
