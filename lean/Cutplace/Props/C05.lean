import Cutplace.Model.Checks
namespace Cutplace.Props
theorem C05_placeholder : True := trivial
end Cutplace.Props
