import Cutplace.Proofs.CheckLemmas
/-
C05  Uniqueness and distinct-count checks are decided over the whole data set.
-/
namespace Cutplace.Props
open Cutplace

/-- **IsUnique, iff and see-also.** For every sequence `pre` of rows that reached the check in this
data set and every further row `x`: `x` is rejected iff some earlier row that the check let pass has
the same values in all key fields, and the error refers back to the line of the *first* such row —
`lookupKey` returns the line of the first entry with an equal key. Rows the check itself rejected
never register a key. -/
theorem C05_unique_verdict (K : List Nat) (pre : List (Row × Nat)) (row : Row) (line : Nat) :
    let vs := (seqVerdicts (isUniqueCheck K) (isUniqueCheck K).reset (pre ++ [(row, line)])).1
    let vpre := (seqVerdicts (isUniqueCheck K) (isUniqueCheck K).reset pre).1
    vs = vpre ++ [(lookupKey (keyOf K row) (passedKeys K pre vpre)).map (fun l => ⟨some l⟩)] := by
  simp only [seqVerdicts_append]
  have hs := unique_state K [] pre
  simp only [List.nil_append] at hs
  have hreset : (isUniqueCheck K).reset = .unique [] := rfl
  rw [hreset, hs, seqVerdicts_cons]
  cases hl : lookupKey (keyOf K row) (passedKeys K pre (seqVerdicts (isUniqueCheck K) (.unique []) pre).1) with
  | some first => rw [unique_row_veto K _ row line first hl]; simp [seqVerdicts]
  | none => rw [unique_row_pass K _ row line hl]; simp [seqVerdicts]

/-- what `lookupKey` means: the line of the first entry with that key -/
theorem C05_lookupKey_spec (k : List Str) (l : List (List Str × Nat)) :
    (lookupKey k l = none ↔ ∀ e ∈ l, e.1 ≠ k) ∧
    (∀ line, lookupKey k l = some line ↔
      ∃ a b, l = a ++ (k, line) :: b ∧ ∀ e ∈ a, e.1 ≠ k) := by
  induction l with
  | nil => simp [lookupKey]
  | cons e rest ih =>
    obtain ⟨k', l'⟩ := e
    simp only [lookupKey]
    by_cases hk : k' = k
    · subst hk
      simp only [beq_self_eq_true, if_true, reduceCtorEq, List.mem_cons, ne_eq, forall_eq_or_imp,
        not_true_eq_false, false_and, Option.some.injEq]
      refine ⟨by simp, ?_⟩
      intro line
      constructor
      · intro h; subst h; exact ⟨[], rest, rfl, by simp⟩
      · rintro ⟨a, b, hab, hne⟩
        cases a with
        | nil => simp at hab; exact hab.1
        | cons a0 as =>
          simp only [List.cons_append, List.cons.injEq] at hab
          have := hne a0 (by simp)
          rw [← hab.1] at this
          simp at this
    · have hne : (k' == k) = false := by simpa using hk
      simp only [hne, Bool.false_eq_true, if_false, List.mem_cons, ne_eq, forall_eq_or_imp]
      refine ⟨by simp [hk, ih.1], ?_⟩
      intro line
      rw [ih.2 line]
      constructor
      · rintro ⟨a, b, hab, hne'⟩
        exact ⟨(k', l') :: a, b, by simp [hab], by
          intro e he; rcases List.mem_cons.mp he with rfl | he
          · exact hk
          · exact hne' e he⟩
      · rintro ⟨a, b, hab, hne'⟩
        cases a with
        | nil => simp at hab; exact absurd hab.1.1 hk
        | cons a0 as =>
          simp only [List.cons_append, List.cons.injEq] at hab
          exact ⟨as, b, hab.2, fun e he => hne' e (by simp [he])⟩

/-- A vetoing `IsUniqueCheck` leaves its state unchanged: a rejected row never registers a key. -/
theorem C05_rejected_row_not_registered (K : List Nat) (seen : List (List Str × Nat)) (row : Row) (line : Nat)
    (v : Veto) (h : ((isUniqueCheck K).row (.unique seen) row line).2 = some v) :
    ((isUniqueCheck K).row (.unique seen) row line).1 = .unique seen := by
  cases hl : lookupKey (keyOf K row) seen with
  | some first => rw [unique_row_veto K seen row line first hl]
  | none => rw [unique_row_pass K seen row line hl] at h; simp at h

/-- **DistinctCount.** After any sequence of rows that reached the check, its state lists each value
of the counted field exactly once, so the end-of-data verdict compares the number of distinct values
among those rows with the threshold — for each of the six operators and every threshold. -/
theorem C05_distinct (col : Nat) (cmp : Cmp) (n : Int) (rs : List (Row × Nat)) :
    ∃ vals, (seqVerdicts (distinctCountCheck col cmp n) (distinctCountCheck col cmp n).reset rs).2 = .distinct vals ∧
      vals.Nodup ∧ (∀ v, v ∈ vals ↔ v ∈ rs.map (fun r => r.1.getD col [])) ∧
      (distinctCountCheck col cmp n).atEnd (.distinct vals) = cmp.eval vals.length n ∧
      (seqVerdicts (distinctCountCheck col cmp n) (distinctCountCheck col cmp n).reset rs).1 = rs.map (fun _ => none) := by
  have key : ∀ (vals0 : List Str) (rs : List (Row × Nat)), vals0.Nodup →
      ∃ vals, (seqVerdicts (distinctCountCheck col cmp n) (.distinct vals0) rs).2 = .distinct vals ∧
        vals.Nodup ∧ (∀ v, v ∈ vals ↔ v ∈ vals0 ∨ v ∈ rs.map (fun r => r.1.getD col [])) ∧
        (seqVerdicts (distinctCountCheck col cmp n) (.distinct vals0) rs).1 = rs.map (fun _ => none) := by
    intro vals0 rs
    induction rs generalizing vals0 with
    | nil => intro h; exact ⟨vals0, rfl, h, by simp, rfl⟩
    | cons x xs ih =>
      intro h
      obtain ⟨row, line⟩ := x
      rw [seqVerdicts_cons, distinct_row]
      by_cases hc : vals0.contains (row.getD col []) = true
      · obtain ⟨vals, h1, h2, h3, h4⟩ := ih vals0 h
        rw [if_pos hc]
        refine ⟨vals, h1, h2, ?_, by simp only [List.map_cons]; rw [h4]⟩
        intro v; rw [h3 v]
        simp only [List.map_cons, List.mem_cons]
        have : row.getD col [] ∈ vals0 := by simpa using hc
        constructor
        · rintro (h | h); exact Or.inl h; exact Or.inr (Or.inr h)
        · rintro (h | h | h)
          · exact Or.inl h
          · subst h; exact Or.inl this
          · exact Or.inr h
      · have hnot : row.getD col [] ∉ vals0 := by simpa using hc
        have hnd : (vals0 ++ [row.getD col []]).Nodup := by
          rw [List.nodup_append]
          refine ⟨h, by simp, ?_⟩
          intro a ha b hb
          simp only [List.mem_singleton] at hb
          subst hb
          intro hab; subst hab; exact hnot ha
        obtain ⟨vals, h1, h2, h3, h4⟩ := ih _ hnd
        rw [if_neg hc]
        refine ⟨vals, h1, h2, ?_, by simp only [List.map_cons]; rw [h4]⟩
        intro v; rw [h3 v]
        simp only [List.mem_append, List.map_cons, List.mem_cons, List.not_mem_nil, or_false]
        constructor
        · rintro ((h | h) | h)
          · exact Or.inl h
          · exact Or.inr (Or.inl h)
          · exact Or.inr (Or.inr h)
        · rintro (h | h | h)
          · exact Or.inl (Or.inl h)
          · exact Or.inl (Or.inr h)
          · exact Or.inr h
  obtain ⟨vals, h1, h2, h3, h4⟩ := key [] rs (by simp)
  exact ⟨vals, h1, h2, by simpa using h3, rfl, h4⟩

/-- A row rejected by a field never reaches any check: check states are untouched (see also
`C04_check_error_after_fields`). -/
theorem C05_field_rejected_rows_invisible {σ} (cols : List Column) (checks : List (Check σ)) (sts : List σ)
    (row : Row) (line j : Nat) (h : (validateRow cols checks sts row line).2.1 = some (.field j)) :
    (validateRow cols checks sts row line).1 = sts := by
  unfold validateRow at h ⊢
  by_cases hlen : row.length = cols.length
  · simp only [hlen, ne_eq, not_true_eq_false, if_false] at h ⊢
    generalize validateCells cols row 0 = vc at h ⊢
    obtain ⟨culprit, log⟩ := vc
    cases culprit with
    | some k => rfl
    | none =>
      simp only at h
      cases hr : (runChecks checks sts row line 0).2.1 <;> simp [hr] at h
  · simp [hlen]

/-- The general statement ("an earlier *accepted* row") fails when a later-declared check can reject
a row after IsUnique registered its key (known finding): row 0 passes IsUnique, is vetoed by the
second check, and row 1 is then reported as a duplicate of it. -/
theorem C05_unique_accepted_counterexample :
    let col : Column := ⟨fun v => .inr v, fun _ => true⟩
    let checks := [isUniqueCheck [0], scriptedCheck 0 ['1'] false]
    let r := readRows ⟨.yield, 0, none⟩ [col] checks false [[['1']], [['1']]] []
    r.events = [.err 0 (.check 1 none), .err 1 (.check 0 (some 0))] := by decide

/-- non-vacuity for `C05_unique_verdict`: keys a, b, a -/
example :
    (seqVerdicts (isUniqueCheck [0]) (isUniqueCheck [0]).reset [([['a']], 0), ([['b']], 1), ([['a']], 2)]).1
      = [none, none, some ⟨some 0⟩] := by decide

end Cutplace.Props
