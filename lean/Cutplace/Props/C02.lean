import Cutplace.Proofs.DigitLemmas
import Cutplace.Proofs.RangeLemmas
import Cutplace.Spec.Fields
import Cutplace.Proofs.LengthRange
import Cutplace.Proofs.DateTimeLemmas
import Cutplace.Proofs.DateTimeComplete
import Cutplace.Proofs.Layout
import Cutplace.Proofs.RegexSem
/-
C02  Each field type accepts exactly the values its rule describes.

Proved here: Integer (an integer literal inside the valid range, value = what the text denotes, the
canonical text of every integer is read back as that integer), Choice, Constant, Text, and the
separator handling of Decimal.  DateTime, Pattern, RegEx and the length-derived integer ranges are
modelled (Model/DateTime, Model/Regex, `createRangeFromLength`) and tied to the code by the
correspondence check only; their acceptance theorems are not proved yet.
-/
namespace Cutplace.Props
open Cutplace Cutplace.Spec

/-- `int(str(n)) = n` for every integer whose decimal text stays within CPython's conversion limit
(`sys.get_int_max_str_digits()`, 4300 digits): the canonical text of an integer denotes that integer.
Beyond the limit `int()` raises `ValueError` and the cell is rejected (`C02_int_text_beyond_limit`). -/
theorem C02_int_text_roundtrip (n : Int) (hd : (digits n.natAbs).length ≤ maxStrDigits) : pyIntBase10 (intRepr n) = some n := by
  unfold pyIntBase10 intRepr natRepr
  have hne := digits_ne_nil n.natAbs
  have hlt := digits_lt10 n.natAbs
  by_cases hn : n < 0
  · simp only [hn, if_true]
    have hs := strip_digits (digits n.natAbs) hne hlt ['-'] (by intro c hc; simp at hc; subst hc; decide)
    simp only [List.singleton_append] at hs
    rw [hs]
    simp only [splitSign]
    rw [dropDigitUnderscores_digits _ hne hlt]
    have hd' : ¬ (List.map digitChar (digits n.natAbs)).length > maxStrDigits := by simp only [List.length_map]; omega
    simp only [hd', map_digitVal_digitChar _ hlt, parse_digits, if_true, if_false]
    congr 1; omega
  · simp only [hn, if_false]
    have hs := strip_digits (digits n.natAbs) hne hlt [] (by simp)
    simp only [List.nil_append] at hs
    rw [hs, splitSign_digits _ hlt]
    simp only []
    rw [dropDigitUnderscores_digits _ hne hlt]
    have hd' : ¬ (List.map digitChar (digits n.natAbs)).length > maxStrDigits := by simp only [List.length_map]; omega
    simp only [hd', map_digitVal_digitChar _ hlt, parse_digits, Bool.false_eq_true, if_false]
    congr 1; omega

/-- beyond CPython's limit the canonical text is not converted (the real `int()` raises `ValueError`,
which the Integer field turns into a rejection) -/
theorem C02_int_text_beyond_limit (n : Int) (hd : (digits n.natAbs).length > maxStrDigits) : pyIntBase10 (intRepr n) = none := by
  unfold pyIntBase10 intRepr natRepr
  have hne := digits_ne_nil n.natAbs
  have hlt := digits_lt10 n.natAbs
  have hd' : (List.map digitChar (digits n.natAbs)).length > maxStrDigits := by simp only [List.length_map]; omega
  by_cases hn : n < 0
  · simp only [hn, if_true]
    have hs := strip_digits (digits n.natAbs) hne hlt ['-'] (by intro c hc; simp at hc; subst hc; decide)
    simp only [List.singleton_append] at hs
    rw [hs]
    simp only [splitSign]
    rw [dropDigitUnderscores_digits _ hne hlt]
    simp only [hd', if_true]
  · simp only [hn, if_false]
    have hs := strip_digits (digits n.natAbs) hne hlt [] (by simp)
    simp only [List.nil_append] at hs
    rw [hs, splitSign_digits _ hlt]
    simp only []
    rw [dropDigitUnderscores_digits _ hne hlt]
    simp only [hd', if_true]

/-- Integer: a (non-empty, ASCII) cell is accepted iff it is an integer literal whose value lies in
the field's valid range, and then the native value is that integer. -/
theorem C02_integer (valid : Range) (cell : Str) (ha : isAscii cell = true) (v : Value) :
    (FieldKind.integer valid).validatedValue cell = .ok (some v) ↔
      ∃ n : Int, pyIntBase10 cell = some n ∧ valid.validate n = true ∧ v = .int n := by
  simp only [FieldKind.validatedValue, ha, Bool.not_true, Bool.false_eq_true, if_false]
  cases hp : pyIntBase10 cell with
  | none => simp
  | some n =>
    by_cases hv : valid.validate n = true
    · simp [hv]; exact eq_comm
    · simp [hv]

/-- ... and since the valid range is a `Range`, "lies in the range" is C01's membership. -/
theorem C02_integer_rule (d : RangeDesc) (n : Int) (hdig : (digits n.natAbs).length ≤ maxStrDigits) :
    (FieldKind.integer (rangeOfItems (denote d))).validatedValue (intRepr n) = .ok (some (.int n)) ↔ Accepts d n := by
  have ha : isAscii (intRepr n) = true := by
    unfold isAscii intRepr natRepr
    have hlt := digits_lt10 n.natAbs
    have hd : ∀ c ∈ (digits n.natAbs).map digitChar, c.toNat < 128 := by
      intro c hc
      obtain ⟨d, hdm, rfl⟩ := List.mem_map.mp hc
      have : ∀ d, d < 10 → (digitChar d).toNat < 128 := by decide
      exact this d (hlt d hdm)
    split
    · simp only [List.all_cons, Bool.and_eq_true, decide_eq_true_eq, List.all_eq_true]
      exact ⟨by decide, hd⟩
    · simp only [List.all_eq_true, decide_eq_true_eq]; exact hd
  rw [C02_integer _ _ ha]
  simp only [C02_int_text_roundtrip n hdig, Option.some.injEq]
  constructor
  · rintro ⟨m, hm, hv, _⟩
    subst hm
    exact (C01_validate_iff_items d _).mp hv
  · intro h
    exact ⟨n, rfl, (C01_validate_iff_items d n).mpr h, rfl⟩
where
  C01_validate_iff_items (d : RangeDesc) (v : Int) : (rangeOfItems (denote d)).validate v = true ↔ Accepts d v := by
    simp only [Range.validate, rangeOfItems, validateLoop_iff, Accepts, denote, List.mem_map]
    constructor
    · rintro ⟨_, ⟨it, hit, rfl⟩, hc⟩
      exact ⟨it, hit, (contains_denote_iff it v).mp hc⟩
    · rintro ⟨it, hit, hm⟩
      exact ⟨it.denote, ⟨it, hit, rfl⟩, (contains_denote_iff it v).mpr hm⟩

theorem validate_denote_iff (d : RangeDesc) (v : Int) : (rangeOfItems (denote d)).validate v = true ↔ Accepts d v := by
  simp only [Range.validate, rangeOfItems, validateLoop_iff, Accepts, denote, List.mem_map]
  constructor
  · rintro ⟨_, ⟨it, hit, rfl⟩, hc⟩
    exact ⟨it, hit, (contains_denote_iff it v).mp hc⟩
  · rintro ⟨it, hit, hm⟩
    exact ⟨it.denote, ⟨it, hit, rfl⟩, (contains_denote_iff it v).mpr hm⟩

/-- **Integer with only a length.** For every well-formed length declaration `L` (at least one item,
`lower ≤ upper`, items pairwise disjoint, no negative lower limit, upper limits at least 1; lengths up
to CPython's 4300-digit conversion limit) `create_range_from_length` succeeds, and the range it
builds — by writing a text of nines and zeros and parsing it again with `Range()` — accepts an
integer exactly when the length of its decimal text (`str(n)`, minus sign included) is one the
declaration allows. -/
theorem C02_int_length (L : RangeDesc) (hwf : WellFormed L) (hok : ∀ it ∈ L, LenItemOk it) (hb : LenBounded L) :
    ∃ r, createRangeFromLength (rangeOfItems (denote L)) = .ok r ∧
      ∀ n : Int, r.validate n = true ↔ Accepts L ((intRepr n).length : Int) := by
  obtain ⟨hne, hwfi, hdis⟩ := hwf
  obtain ⟨g1, g2, g3⟩ := guards_pass L hok hb
  by_cases hw : ∃ it ∈ L, IsWhole it
  · obtain ⟨it, hit, hwit⟩ := hw
    have hL := whole_alone L hok hdis it hit hwit
    subst hL
    refine ⟨emptyRange, ?_, ?_⟩
    · unfold createRangeFromLength
      simp only [rangeOfItems, g1, g2, g3, Bool.false_eq_true, if_false]
      rw [rangeText_whole it (hok it (by simp)) hwit]
      rfl
    · intro n
      have hpos := textLen_pos n
      obtain ⟨hhi, hlo⟩ := hwit
      have : it.Mem ((intRepr n).length : Int) := by
        rw [mem_iff_bounds]
        refine ⟨fun l hl => ?_, fun u hu => ?_⟩
        · have := hlo l hl
          unfold textLen at hpos
          omega
        · rw [hhi] at hu; cases hu
      simp [emptyRange, Range.validate, Accepts, this]
  · have hnw : ∀ it ∈ L, ¬ IsWhole it := fun it hit h => hw ⟨it, hit, h⟩
    have htext := rangeText_eq L hne hok hnw
    obtain ⟨w1, w2⟩ := genAll_wf L hok hnw hdis
    have hparse := parse_render (genAll L) (spsFor (genAll L)) ⟨genAll_ne_nil L hne hok hnw, w1, w2⟩ (legal_spsFor _)
      (convertible_of_bounded _ _ (genAll_bounded L hok hb)) none
    refine ⟨rangeOfItems (denote (genAll L)), ?_, ?_⟩
    · unfold createRangeFromLength
      simp only [rangeOfItems, g1, g2, g3, Bool.false_eq_true, if_false, htext]
      exact hparse
    · intro n
      rw [validate_denote_iff]
      exact genAll_accepts L hok hnw n

/-- non-vacuity: the declaration `2...3, 5` (negative numbers count their sign) -/
example :
    let L : RangeDesc := [.closed 2 3, .single 5]
    WellFormed L ∧ (∀ it ∈ L, LenItemOk it) ∧ LenBounded L ∧
      Accepts L ((intRepr (-42)).length : Int) ∧ ¬ Accepts L ((intRepr 1234).length : Int) := by
  refine ⟨by decide, ?_, ?_, by decide +kernel, by decide +kernel⟩
  · intro it hit
    simp at hit
    rcases hit with rfl | rfl <;> exact ⟨by decide, by intro l hl; simp [ItemD.lo] at hl; omega, by intro u hu; simp [ItemD.hi] at hu; omega⟩
  · intro it hit
    have hm : maxStrDigits = 4300 := rfl
    simp at hit
    rcases hit with rfl | rfl <;> exact ⟨by intro l hl; simp [ItemD.lo] at hl; omega, by intro u hu; simp [ItemD.hi] at hu; omega⟩

/-- Choice: accepted iff the cell is exactly one of the listed values (case-sensitively: list
membership of the character sequence), returned unchanged. -/
theorem C02_choice (choices : List Str) (cell : Str) (v : Value) :
    (FieldKind.choice choices).validatedValue cell = .ok (some v) ↔ cell ∈ choices ∧ v = .str cell := by
  simp only [FieldKind.validatedValue]
  by_cases h : choices.contains cell = true
  · have : cell ∈ choices := by simpa using h
    simp [this]; exact eq_comm
  · have : cell ∉ choices := by simpa using h
    simp [this]

/-- Constant: accepted iff the cell equals the constant. -/
theorem C02_constant (c cell : Str) (v : Value) :
    (FieldKind.constant c).validatedValue cell = .ok (some v) ↔ cell = c ∧ v = .str cell := by
  simp only [FieldKind.validatedValue]
  by_cases h : cell = c
  · simp [h]; exact eq_comm
  · simp [h]

/-- Text: anything is accepted and returned unchanged. -/
theorem C02_text (cell : Str) : FieldKind.text.validatedValue cell = .ok (some (.str cell)) := rfl

/-- Decimal, separator handling: a text without separators is left alone. -/
theorem C02_decimal_plain (sep : Char) (thou : Option Char) (s : Str) (found : Bool)
    (h1 : sep ∉ s) (h2 : ∀ t, thou = some t → t ∉ s) :
    translateDecimal sep thou s found = some s := by
  induction s with
  | nil => rfl
  | cons c cs ih =>
    have hc1 : (c == sep) = false := by
      simp only [List.mem_cons, not_or] at h1; simpa using Ne.symm h1.1
    have hc2 : (thou == some c) = false := by
      cases thou with
      | none => rfl
      | some t =>
        have := h2 t rfl
        simp only [List.mem_cons, not_or] at this
        simpa using this.1
    simp only [translateDecimal, hc1, hc2, Bool.false_eq_true, if_false]
    rw [ih (by simp only [List.mem_cons, not_or] at h1; exact h1.2)
          (by intro t ht; have := h2 t ht; simp only [List.mem_cons, not_or] at this; exact this.2)]
    rfl

/-- Decimal: the decimal separator becomes a point, thousands separators before it are dropped:
`ip` (possibly with thousands separators) `sep` `fp` is translated to the plain number. -/
theorem C02_decimal_translate (sep : Char) (thou : Option Char) (ip fp : Str)
    (hip : sep ∉ ip) (hfp1 : sep ∉ fp) (hfp2 : ∀ t, thou = some t → t ∉ fp) :
    translateDecimal sep thou (ip ++ sep :: fp) false =
      some (ip.filter (fun c => thou != some c) ++ '.' :: fp) := by
  induction ip with
  | nil =>
    simp only [List.nil_append, translateDecimal, beq_self_eq_true, if_true, Bool.false_eq_true, if_false,
      List.filter_nil]
    rw [C02_decimal_plain sep thou fp true hfp1 hfp2]
    rfl
  | cons c cs ih =>
    have hc1 : (c == sep) = false := by
      simp only [List.mem_cons, not_or] at hip; simpa using Ne.symm hip.1
    have ih' := ih (by simp only [List.mem_cons, not_or] at hip; exact hip.2)
    simp only [List.cons_append, translateDecimal, hc1, Bool.false_eq_true, if_false]
    by_cases ht : thou = some c
    · simp [ht]
      rw [ht] at ih'; simpa using ih'
    · have : (thou == some c) = false := by simpa using ht
      simp [this, ih', ht]

/-- Decimal: a second decimal separator is refused. -/
theorem C02_decimal_two_separators (sep : Char) (thou : Option Char) (s : Str) (h : sep ∈ s) :
    translateDecimal sep thou s true = none := by
  induction s with
  | nil => simp at h
  | cons c cs ih =>
    by_cases hc : c = sep
    · subst hc; simp [translateDecimal]
    · have hc1 : (c == sep) = false := by simpa using hc
      have hin : sep ∈ cs := by
        rcases List.mem_cons.mp h with h' | h'
        · exact absurd h'.symm hc
        · exact h'
      simp only [translateDecimal, hc1, Bool.false_eq_true, if_false]
      by_cases ht : thou = some c
      · simp [ht]
      · have : (thou == some c) = false := by simpa using ht
        simp [this, ih hin]

/-- Decimal: a thousands separator after the decimal separator is refused. -/
theorem C02_decimal_thousands_after_separator (sep t : Char) (s : Str) (h : t ∈ s) (hne : t ≠ sep) :
    translateDecimal sep (some t) s true = none := by
  induction s with
  | nil => simp at h
  | cons c cs ih =>
    by_cases hc : c = sep
    · subst hc; simp [translateDecimal]
    · have hc1 : (c == sep) = false := by simpa using hc
      simp only [translateDecimal, hc1, Bool.false_eq_true, if_false]
      by_cases ht : c = t
      · subst ht; simp
      · have : (some t == some c) = false := by simpa using Ne.symm ht
        have hin : t ∈ cs := by
          rcases List.mem_cons.mp h with h' | h'
          · exact absurd h'.symm ht
          · exact h'
        simp [this, ih hin]

/-- non-vacuity -/
example : translateDecimal ',' (some '.') "1.234.567,89".toList false = some "1234567.89".toList := by decide
example : pyIntBase10 " -42 ".toList = some (-42) := by decide

/-- **DateTime accepts only real calendar dates and times.**  Whatever `time.strptime` (as modelled: CPython's
directive alternatives in their order of preference, with back-tracking) accepts for any format over
`%d %m %Y %y %H %M %S`, literal characters and white space, and any cell text, is a real time of day (leap seconds 60
and 61 as CPython allows them) and a real day of the returned month and year under the Gregorian leap-year rule - with
the one exception CPython makes: a format without year accepts 29 February and reports the year 1900. -/
theorem C02_datetime_sound (fmt : List FmtTok) (value : Str) (y mo d h mi sec : Nat)
    (hs : strptime fmt value = some (y, mo, d, h, mi, sec)) :
    1 ≤ mo ∧ mo ≤ 12 ∧ 1 ≤ d ∧ h ≤ 23 ∧ mi ≤ 59 ∧ sec ≤ 61 ∧
      (d ≤ daysInMonth y mo ∨ (hasYear fmt = false ∧ y = 1900 ∧ mo = 2 ∧ d = 29)) :=
  strptime_sound fmt value y mo d h mi sec hs

/-- non-vacuity: 29.02.2024 is accepted under DD.MM.YYYY, 29.02.2023 and 31.04.2024 are not -/
example :
    let fmt : List FmtTok := [.day, .lit '.', .month, .lit '.', .year4]
    strptime fmt "29.02.2024".toList = some (2024, 2, 29, 0, 0, 0) ∧ strptime fmt "29.02.2023".toList = none ∧
      strptime fmt "31.04.2024".toList = none := by decide +kernel

/-- **DateTime accepts every real calendar date written in the layout of the rule.**  For every format over the
directives, any literal characters (digits included) and no white space that names day, month and the four-digit year,
and every real date (year 1..9999) and time of day: the text that writes day, month, hour, minute and second with two
digits and the year with four is accepted, whatever CPython's alternation order and back-tracking try first, and the
returned tuple is the date as written (time fields the format does not name are 0). -/
theorem C02_datetime_complete (fmt : List FmtTok) (c : Civil) (hr : c.InRange) (hn : NoSpace fmt)
    (hd : .day ∈ fmt) (hm : .month ∈ fmt) (hy : .year4 ∈ fmt) (hy2 : .year2 ∉ fmt)
    (hy1 : 1 ≤ c.y) (hdim : c.d ≤ daysInMonth c.y c.mo) :
    strptime fmt (renderFmt fmt c) = some (c.y, c.mo, c.d, (if .hour ∈ fmt then c.h else 0),
      (if .minute ∈ fmt then c.mi else 0), (if .second ∈ fmt then c.s else 0)) :=
  strptime_complete fmt c hr hn hd hm hy hy2 hy1 hdim

/-- the match consumes exactly what the layout writes, whatever follows (so a longer cell is "unconverted data") -/
theorem C02_datetime_match_exact (fmt : List FmtTok) (c : Civil) (hr : c.InRange) (hn : NoSpace fmt) (tail : Str) (f : Fields) :
    matchToks fmt (renderFmt fmt c ++ tail) f = some (fieldsOf fmt c f, tail) :=
  matchToks_render fmt c hr hn tail f

/-- non-vacuity: 2024-02-29 23:59 under `YYYY-MM-DD hh:mm` written without blank (`T` as separator) -/
example :
    let fmt : List FmtTok := [.year4, .lit '-', .month, .lit '-', .day, .lit 'T', .hour, .lit ':', .minute]
    let c : Civil := ⟨2024, 2, 29, 23, 59, 0⟩
    c.InRange ∧ NoSpace fmt ∧ c.d ≤ daysInMonth c.y c.mo ∧ renderFmt fmt c = "2024-02-29T23:59".toList := by
  refine ⟨⟨by decide, by decide, by decide, by decide, by decide, by decide⟩, by unfold NoSpace; decide, by decide, by decide +kernel⟩

/-- **The layout of the rule is translated into the directives it names.**  For every layout built from the placeholders
`DD MM YYYY YY hh mm ss` and literal characters (anything but the letters of the placeholders and white space, `%` included), in
any order and with placeholders side by side - only `YY` must not be directly followed by another year placeholder, because
`YYYY` is the four-digit year - the replacement pass of `DateTimeFieldFormat.__init__` and strptime's reading of the resulting
format give exactly the directives of the layout, in order.  (Before f42b7f8 the replacements were made one after the other
and `MMmm` became `%%Mm`: found by the generated layouts of this check, repaired, theorem restated without that exclusion.) -/
theorem C02_layout_translation (l : List LTok) (h : SafeLayout l) :
    parseFormat (translateLayout (renderLayout l)) = some (some (l.map LTok.fmt)) :=
  layout_translation l h

/-- **From the rule in the CID to the accepted date**: a layout naming day, month and four-digit year accepts every real
date (and time of day) written in it and returns it unchanged. -/
theorem C02_datetime_layout (l : List LTok) (h : SafeLayout l) (c : Civil) (hr : c.InRange)
    (hd : .day ∈ l) (hm : .month ∈ l) (hy : .year4 ∈ l) (hy2 : .year2 ∉ l) (hy1 : 1 ≤ c.y) (hdim : c.d ≤ daysInMonth c.y c.mo) :
    ∃ fmt, parseFormat (translateLayout (renderLayout l)) = some (some fmt) ∧
      strptime fmt (renderFmt fmt c) = some (c.y, c.mo, c.d, (if .hour ∈ fmt then c.h else 0),
        (if .minute ∈ fmt then c.mi else 0), (if .second ∈ fmt then c.s else 0)) :=
  layout_accepts l h c hr hd hm hy hy2 hy1 hdim

/-- non-vacuity: `YYYYMMDDhhmm` (placeholders side by side) is a safe layout, written as that text -/
example :
    let l : List LTok := [.year4, .month, .day, .hour, .minute]
    SafeLayout l ∧ renderLayout l = "YYYYMMDDhhmm".toList := by
  refine ⟨?_, by decide⟩
  simp [SafeLayout, LTok.isYear]

/-- **RegEx (and Pattern): the matcher decides the declarative semantics of the expression.**  For every expression of the
modelled subset (characters ignoring case, `.`, classes, sequence, alternation, `*`, `{m,n}`, `^ $ \Z`) and every value,
`regex.match(value)` - as modelled: sets of end positions, closure loops with fuel `len + 1` - succeeds iff the expression
matches the text between position 0 and some position `j` in the usual inductive sense (`Rx.Matches`: star = reflexive
transitive closure, `{m,n}` = m to n repetitions).  The fuel never runs out before the closure is complete: every round adds a
new position and there are only `len + 1` positions (`loop_spec`, pigeonhole via `Nodup.length_le_of_subset`). -/
theorem C02_regex_semantics (rx : Rx) (v : Str) : rx.matchPrefix v = true ↔ ∃ j, rx.Matches v.toArray 0 j :=
  matchPrefix_iff rx v

/-- the same for any set of start positions inside the text: `ends` is exactly the image under "matches" -/
theorem C02_regex_ends (rx : Rx) (s : Array Char) (ps : List Nat) (hps : ∀ p ∈ ps, p ≤ s.size) (j : Nat) :
    j ∈ rx.ends s ps ↔ ∃ i ∈ ps, rx.Matches s i j :=
  ends_spec s rx ps hps j

/-- **Pattern: a value is accepted iff the glob matches it entirely.**  `GlobSem` is the reading of the glob itself: `*` any
text (also none), `?` any one character, `[...]` one character of the class, `[` without closing bracket and every other
character itself, ignoring case; nothing of the value may be left over.  For every rule inside the modelled fragment of
`fnmatch.translate` the compiled expression accepts exactly these values. -/
theorem C02_pattern (rule : Str) (rx : Rx) (v : Str) (h : globToRx (rule.length + 1) rule = some rx) :
    rx.matchPrefix v = true ↔ GlobSem (rule.length + 1) rule v :=
  pattern_accepts (rule.length + 1) rule rx v h

/-- the field: a Pattern field declared with a rule accepts (ASCII) `v` iff the glob denotes it -/
theorem C02_pattern_field (rule : Str) (rx : Rx) (v : Str) (h : globToRx (rule.length + 1) rule = some rx) (ha : isAscii v = true) :
    (FieldKind.pattern rx).validatedValue v = .ok (some (.str v)) ↔ GlobSem (rule.length + 1) rule v := by
  rw [← C02_pattern rule rx v h]
  simp only [FieldKind.validatedValue, ha, Bool.not_true, Bool.false_eq_true, if_false]
  cases rx.matchPrefix v <;> simp

/-- non-vacuity: `a*` denotes `Ab` (case is ignored) and not `ba` -/
example : GlobSem 3 ['a', '*'] ['A', 'b'] ∧ ¬ GlobSem 3 ['a', '*'] ['b', 'a'] := by
  constructor
  · refine ⟨'A', ['b'], rfl, by decide, ?_⟩
    exact ⟨1, by decide, rfl⟩
  · rintro ⟨x, v', h, hf, _⟩
    cases h
    revert hf
    decide

end Cutplace.Props
