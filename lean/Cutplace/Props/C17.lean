import Cutplace.Model.Cid
/-
C17  The storage format of CID and data does not change the verdict.

(a) `Cid.read` is a function of the list of rows only: whatever container delivered the rows (CSV text,
ODS, Excel), equal rows give equal interface definitions; the containers' decode-encode theorems are
C12 (delimited), C15 (ODS) and C16 (Excel text cells).
(b) A field declaration consults the data format only through "is it fixed-width?", the decimal and
thousands separators (defaults for Excel/ODS) and, for DateTime, "is it Excel?" (the documented
" 00:00:00" suffix).  Hence for the three non-fixed formats the declared field — and with it every
verdict and returned value — is the same.
-/
namespace Cutplace.Props
open Cutplace

/-- (a) the interface definition depends on the rows only -/
theorem C17_cid_storage (rows rows' : List (List Str)) (w : Bool) (e : Str → Bool) (h : rows = rows') :
    Cid.read rows w e = Cid.read rows' w e := by subst h; rfl

def nonFixed (f : Format) : Prop := f = .delimited ∨ f = .excel ∨ f = .ods

/-- (b) for every field type except Decimal and DateTime the declared field is literally the same
under delimited, Excel and ODS formats (same guards, same rule semantics) -/
theorem C17_field_format_independent (ty : TypeName) (hty : ty ≠ .decimal ∧ ty ≠ .datetime)
    (f1 f2 : Format) (h1 : nonFixed f1) (h2 : nonFixed f2) (allowed : Option Range) (ds : Char) (ts : Option Char)
    (allowEmpty : Bool) (lengthText rule : Str) :
    declareFieldIn ty ⟨f1, allowed, ds, ts⟩ allowEmpty lengthText rule =
      declareFieldIn ty ⟨f2, allowed, ds, ts⟩ allowEmpty lengthText rule := by
  have e1 : (f1 == Format.fixed) = false := by rcases h1 with h | h | h <;> subst h <;> rfl
  have e2 : (f2 == Format.fixed) = false := by rcases h2 with h | h | h <;> subst h <;> rfl
  obtain ⟨hd, ht⟩ := hty
  cases ty with
  | decimal => exact absurd rfl hd
  | datetime => exact absurd rfl ht
  | text => simp [declareFieldIn, e1, e2]
  | integer => simp [declareFieldIn, e1, e2]
  | choice => simp [declareFieldIn, e1, e2]
  | constant => simp [declareFieldIn, e1, e2]
  | scripted b => simp [declareFieldIn, e1, e2]
  | pattern => simp [declareFieldIn, e1, e2]
  | regex => simp [declareFieldIn, e1, e2]

/-- Decimal: with the default separators (what a CID that differs only in its Format property has) the
declared field is the same under delimited, Excel and ODS -/
theorem C17_decimal_format_independent (f1 f2 : Format) (h1 : nonFixed f1) (h2 : nonFixed f2) (allowed : Option Range)
    (allowEmpty : Bool) (lengthText rule : Str) :
    declareFieldIn .decimal ⟨f1, allowed, '.', none⟩ allowEmpty lengthText rule =
      declareFieldIn .decimal ⟨f2, allowed, '.', none⟩ allowEmpty lengthText rule := by
  have e1 : (f1 == Format.fixed) = false := by rcases h1 with h | h | h <;> subst h <;> rfl
  have e2 : (f2 == Format.fixed) = false := by rcases h2 with h | h | h <;> subst h <;> rfl
  have s1 : (if (f1 == Format.excel || f1 == Format.ods) = true then ('.', (none : Option Char)) else ('.', none)) = ('.', none) := by split <;> rfl
  have s2 : (if (f2 == Format.excel || f2 == Format.ods) = true then ('.', (none : Option Char)) else ('.', none)) = ('.', none) := by split <;> rfl
  simp [declareFieldIn, e1, e2, s1, s2]

/-- DateTime: the field differs between the formats only in the flag "Excel", and that flag only
matters for a date-only rule and a cell ending in " 00:00:00" (the documented normalisation) -/
theorem C17_datetime_value (fmt : List FmtTok) (hasTime : Bool) (v : Str)
    (h : hasTime = true ∨ ¬ (v.length ≥ 9 ∧ v.drop (v.length - 9) = " 00:00:00".toList)) :
    (FieldKind.datetime fmt hasTime true).validatedValue v = (FieldKind.datetime fmt hasTime false).validatedValue v := by
  have hs : stripExcelTime hasTime true v = stripExcelTime hasTime false v := by
    unfold stripExcelTime
    rcases h with h | h
    · simp [h]
    · by_cases hc : v.length ≥ 9
      · have hd : ¬ (v.drop (v.length - 9) = " 00:00:00".toList) := fun hd => h ⟨hc, hd⟩
        have hd2 : ¬ (v.drop (v.length - 9) = [' ', '0', '0', ':', '0', '0', ':', '0', '0']) := hd
        simp [hd2]
      · simp [hc]
  simp only [FieldKind.validatedValue, hs]

/-- non-vacuity: an Integer field declared under the three formats is one and the same field -/
example : declareFieldIn .integer ⟨.excel, none, '.', none⟩ false [] "1...9".toList =
    declareFieldIn .integer ⟨.ods, none, '.', none⟩ false [] "1...9".toList :=
  C17_field_format_independent .integer ⟨by decide, by decide⟩ _ _ (Or.inr (Or.inl rfl)) (Or.inr (Or.inr rfl)) _ _ _ _ _ _

end Cutplace.Props
