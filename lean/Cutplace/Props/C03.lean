import Cutplace.Proofs.FieldLemmas
/-
C03  Empty, length and allowed-character guards hold for every field type.

`Field.validatedWith` is the guard pipeline of `AbstractFieldFormat.validated` with the type's value
hook passed in as an argument, so every theorem below holds for every field type and rule —
built-in or plugin — and for every cell.
-/
namespace Cutplace.Props
open Cutplace Cutplace.Spec

/-- Whenever the statement of C03 fixes the verdict (`guardSpec`), the pipeline returns exactly that
verdict, with the type's empty value for an accepted empty cell, whatever the value hook would do:
the hook's behaviour does not appear on the right-hand side, i.e. the rule is not consulted. -/
theorem C03_guards (f : Field) (v : Str) (b : Bool) (h : guardSpec f v = some b)
    (hook : Str → Out (Option Value)) (ev : Value) :
    f.validatedWith hook ev v = .ok (if b then some ev else none) := by
  unfold guardSpec at h
  unfold Field.validatedWith
  by_cases hv : v = []
  · -- the empty string
    subst hv
    have hec : emptyCell f [] = true := by unfold emptyCell; split <;> simp
    simp only [hec, if_true, List.isEmpty_nil, Bool.true_or] at h
    injection h with h
    subst h
    have hfd : firstDisallowed f.allowed [] = none := (firstDisallowed_none_iff f []).mpr (charsOk_nil f)
    have hs : (if f.fixed = true then strip ([] : Str) else []) = [] := by split <;> simp [strip_nil]
    simp only [hfd, hs]
    cases hb : f.allowEmpty
    · simp
    · simp [lengthOk_nil_allowEmpty f hb]
  · have hvne : v.isEmpty = false := by cases v <;> simp_all
    rw [← lengthOk_eq_within f v hv] at h
    cases hec : emptyCell f v
    · -- a non-empty cell
      simp only [hec, Bool.false_eq_true, if_false] at h
      cases hch : charsOk f v
      · simp only [hch, Bool.not_false, if_true] at h
        injection h with h
        subst h
        obtain ⟨i, hi⟩ := firstDisallowed_isSome_of_bad f v hch
        simp [hi]
      · simp only [hch, Bool.not_true, Bool.false_eq_true, if_false] at h
        have hfd := (firstDisallowed_none_iff f v).mpr hch
        cases hl : f.lengthOk v
        · simp only [hl, Bool.not_false, if_true] at h
          injection h with h
          subst h
          simp only [hfd]
          split <;> simp
        · simp [hl] at h
    · -- blank-only cell in fixed format
      have hfixed : f.fixed = true := by
        unfold emptyCell at hec
        by_cases hf : f.fixed = true
        · exact hf
        · simp [hf] at hec; exact absurd hec hv
      have hblank : v.all (· == ' ') = true := by
        unfold emptyCell at hec; simpa [hfixed] using hec
      simp only [hec, if_true, hvne, Bool.false_or] at h
      cases hch : charsOk f v
      · simp [hch] at h
      · cases hl : f.lengthOk v
        · simp [hch, hl] at h
        · simp only [hch, hl, Bool.and_self, if_true] at h
          injection h with h
          subst h
          have hfd := (firstDisallowed_none_iff f v).mpr hch
          simp only [hfd, hfixed, if_true, strip_all_blank v hblank]
          cases f.allowEmpty <;> simp

/-- Empty cell (any format): accepted iff the field may be empty, yielding the empty value. -/
theorem C03_empty (f : Field) (hook : Str → Out (Option Value)) (ev : Value) :
    f.validatedWith hook ev [] = .ok (if f.allowEmpty then some ev else none) := by
  apply C03_guards
  have hec : emptyCell f [] = true := by unfold emptyCell; split <;> simp
  simp [guardSpec, hec]

/-- Fixed-width: a cell of blanks that fits the width is accepted iff the field may be empty. -/
theorem C03_blank_fixed (f : Field) (v : Str) (hf : f.fixed = true) (hb : v.all (· == ' ') = true)
    (hc : charsOk f v = true) (hl : lengthWithin f v = true)
    (hook : Str → Out (Option Value)) (ev : Value) :
    f.validatedWith hook ev v = .ok (if f.allowEmpty then some ev else none) := by
  apply C03_guards
  simp [guardSpec, emptyCell, hf, hb, hc, hl]

/-- A non-empty cell whose length lies outside the declaration is rejected whatever the hook says. -/
theorem C03_length (f : Field) (v : Str) (hne : emptyCell f v = false) (hl : lengthWithin f v = false)
    (hook : Str → Out (Option Value)) (ev : Value) :
    f.validatedWith hook ev v = .ok none := by
  have : guardSpec f v = some false := by
    unfold guardSpec
    cases hc : charsOk f v <;> simp [hne, hl]
  simpa using C03_guards f v false this hook ev

/-- A non-empty cell containing a character outside the allowed range is rejected whatever the hook says. -/
theorem C03_chars (f : Field) (v : Str) (hne : emptyCell f v = false) (hc : charsOk f v = false)
    (hook : Str → Out (Option Value)) (ev : Value) :
    f.validatedWith hook ev v = .ok none := by
  have : guardSpec f v = some false := by simp [guardSpec, hne, hc]
  simpa using C03_guards f v false this hook ev

/-- The value hook is only ever consulted on a cell that passed all guards: non-empty after the
fixed-format blank stripping, only allowed characters, length inside the declaration.  Otherwise the
outcome does not depend on the hook at all. (Shared with C20.) -/
theorem C03_hook_precondition (f : Field) (v : Str) (hook : Str → Out (Option Value)) (ev : Value) :
    (f.validatedWith hook ev v = hook (if f.fixed then strip v else v) ∧ (if f.fixed then strip v else v) ≠ [] ∧
      charsOk f v = true ∧ f.lengthOk v = true)
    ∨ (∀ hook' : Str → Out (Option Value), f.validatedWith hook' ev v = f.validatedWith hook ev v) := by
  unfold Field.validatedWith
  cases hfd : firstDisallowed f.allowed v with
  | some i => right; intro _; rfl
  | none =>
    have hch := (firstDisallowed_none_iff f v).mp hfd
    simp only []
    cases hs : (if f.fixed = true then strip v else v) with
    | nil => right; intro hook'; simp
    | cons c cs =>
      cases hl : f.lengthOk v
      · right; intro hook'; simp
      · left; simp [hch]

/-- non-vacuity: a fixed field of width 3 that must not be empty, cell of three blanks -/
example : guardSpec ⟨false, rangeOfItems [⟨some 3, some 3⟩], true, none, .text⟩ [' ', ' ', ' '] = some false := by
  decide

end Cutplace.Props
