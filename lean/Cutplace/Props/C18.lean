import Cutplace.Model.Cli
/-
C18  The command line's exit code reflects the validation outcome.
-/
namespace Cutplace.Props
open Cutplace

theorem processFiles_three_iff (files : List FileVerdict) (b : Bool) :
    processFiles files b = 3 ↔ .unreadable ∈ files := by
  induction files generalizing b with
  | nil => cases b <;> simp [processFiles]
  | cons f fs ih => cases f <;> simp [processFiles, ih]

theorem processFiles_no_unreadable (files : List FileVerdict) (b : Bool) (h : .unreadable ∉ files) :
    processFiles files b = if b && !files.contains .rejected then 0 else 1 := by
  induction files generalizing b with
  | nil => cases b <;> simp [processFiles]
  | cons f fs ih =>
    simp only [List.mem_cons, not_or] at h
    cases f with
    | accepted => simp [processFiles, ih b h.2]
    | rejected => simp [processFiles, ih false h.2]
    | unreadable => exact absurd rfl h.1

/-- exit code 0 iff the arguments are usable, the CID loads and every file is accepted -/
theorem C18_zero_iff (usage : Bool) (cid : CidLoad) (files : List FileVerdict) :
    cliMain usage cid files = 0 ↔ usage = false ∧ cid = .ok ∧ ∀ f ∈ files, f = .accepted := by
  unfold cliMain
  cases usage
  · cases cid with
    | rejected => simp
    | unreadable => simp
    | ok =>
      simp only [Bool.false_eq_true, if_false, true_and]
      by_cases hu : FileVerdict.unreadable ∈ files
      · have := (processFiles_three_iff files true).mpr hu
        simp only [this]
        constructor
        · intro h; omega
        · intro h; have := h _ hu; simp at this
      · rw [processFiles_no_unreadable files true hu]
        by_cases hr : files.contains .rejected = true
        · simp only [hr, Bool.not_true, Bool.and_false, Bool.false_eq_true, if_false]
          constructor
          · intro h; omega
          · intro h
            have : FileVerdict.rejected ∈ files := by simpa using hr
            have := h _ this; simp at this
        · have hr' : files.contains .rejected = false := by simpa using hr
          simp only [hr', Bool.not_false, Bool.and_self, if_true, true_iff]
          intro f hf
          cases f with
          | accepted => rfl
          | rejected => exact absurd (by simpa using hf) hr
          | unreadable => exact absurd hf hu
  · simp

/-- exit code 1 iff the CID is rejected, or it loads, every named file can be read and at least one is rejected -/
theorem C18_one_iff (usage : Bool) (cid : CidLoad) (files : List FileVerdict) :
    cliMain usage cid files = 1 ↔
      usage = false ∧ (cid = .rejected ∨ (cid = .ok ∧ .unreadable ∉ files ∧ .rejected ∈ files)) := by
  unfold cliMain
  cases usage
  · cases cid with
    | rejected => simp
    | unreadable => simp
    | ok =>
      simp only [Bool.false_eq_true, if_false, true_and, reduceCtorEq, false_or]
      by_cases hu : FileVerdict.unreadable ∈ files
      · have := (processFiles_three_iff files true).mpr hu
        simp [this, hu]
      · rw [processFiles_no_unreadable files true hu]
        by_cases hr : files.contains .rejected = true
        · have : FileVerdict.rejected ∈ files := by simpa using hr
          simp [hr, hu, this]
        · have hr' : files.contains .rejected = false := by simpa using hr
          have : FileVerdict.rejected ∉ files := by simpa using hr
          simp [hr', hu, this]
  · simp

/-- exit code 3 iff the CID cannot be read, or it loads and some named file cannot be read -/
theorem C18_three_iff (usage : Bool) (cid : CidLoad) (files : List FileVerdict) :
    cliMain usage cid files = 3 ↔ usage = false ∧ (cid = .unreadable ∨ (cid = .ok ∧ .unreadable ∈ files)) := by
  unfold cliMain
  cases usage
  · cases cid with
    | rejected => simp
    | unreadable => simp
    | ok => simp [processFiles_three_iff]
  · simp

/-- exit code 2 iff the arguments are unusable; exit code 4 never arises from the modelled outcomes -/
theorem C18_two_iff (usage : Bool) (cid : CidLoad) (files : List FileVerdict) :
    cliMain usage cid files = 2 ↔ usage = true := by
  unfold cliMain
  cases usage
  · cases cid with
    | rejected => simp
    | unreadable => simp
    | ok =>
      simp only [Bool.false_eq_true, if_false, iff_false]
      by_cases hu : FileVerdict.unreadable ∈ files
      · rw [(processFiles_three_iff files true).mpr hu]; omega
      · rw [processFiles_no_unreadable files true hu]; split <;> omega
  · simp

theorem C18_never_four (usage : Bool) (cid : CidLoad) (files : List FileVerdict) :
    cliMain usage cid files ≠ 4 := by
  unfold cliMain
  cases usage
  · cases cid with
    | rejected => simp
    | unreadable => simp
    | ok =>
      simp only [Bool.false_eq_true, if_false]
      by_cases hu : FileVerdict.unreadable ∈ files
      · rw [(processFiles_three_iff files true).mpr hu]; omega
      · rw [processFiles_no_unreadable files true hu]; split <;> omega
  · simp

/-- the exit code does not depend on the order of the data files -/
theorem C18_order_independent (usage : Bool) (cid : CidLoad) (files files' : List FileVerdict)
    (h : files.Perm files') : cliMain usage cid files = cliMain usage cid files' := by
  have key : ∀ n, cliMain usage cid files = n ↔ cliMain usage cid files' = n := by
    intro n
    by_cases h0 : n = 0
    · subst h0; rw [C18_zero_iff, C18_zero_iff]
      constructor <;> (rintro ⟨a, b, c⟩; exact ⟨a, b, fun f hf => c f (by first | exact h.mem_iff.mpr hf | exact h.mem_iff.mp hf)⟩)
    by_cases h1 : n = 1
    · subst h1; rw [C18_one_iff, C18_one_iff, h.mem_iff, h.mem_iff]
    by_cases h2 : n = 2
    · subst h2; rw [C18_two_iff, C18_two_iff]
    by_cases h3 : n = 3
    · subst h3; rw [C18_three_iff, C18_three_iff, h.mem_iff]
    -- no other code is ever produced
    have none_other : ∀ fs, cliMain usage cid fs ≠ n := by
      intro fs hfs
      unfold cliMain at hfs
      cases usage
      · cases cid with
        | rejected => simp at hfs; omega
        | unreadable => simp at hfs; omega
        | ok =>
          simp only [Bool.false_eq_true, if_false] at hfs
          by_cases hu : FileVerdict.unreadable ∈ fs
          · rw [(processFiles_three_iff fs true).mpr hu] at hfs; omega
          · rw [processFiles_no_unreadable fs true hu] at hfs; split at hfs <;> omega
      · simp at hfs; omega
    exact ⟨fun h => absurd h (none_other _), fun h => absurd h (none_other _)⟩
  exact ((key _).mp rfl).symm

/-- non-vacuity -/
example : cliMain false .ok [.accepted, .rejected, .accepted] = 1 ∧ cliMain false .ok [.rejected, .unreadable] = 3 ∧
    cliMain false .ok [] = 0 := by decide

end Cutplace.Props
