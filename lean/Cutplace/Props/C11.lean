import Cutplace.Proofs.CharSpelling
import Cutplace.Spec.DataFormat
/-
C11  Data-format properties mean what the CID says; contradictions are refused.
-/
namespace Cutplace.Props
open Cutplace Cutplace.Spec

def allNames : List String := propertyNames ++ ["format", "is_valid"]

/-- Applicability: among the names the mechanism knows at all, a property can be set for a format
exactly when the documented table says it applies (13 names x 4 formats, decided exhaustively). -/
theorem C11_applicable : ∀ f ∈ [Format.delimited, .fixed, .excel, .ods], ∀ n ∈ allNames,
    ((attributeNames f).contains n && n != "format" && n != "is_valid") = propertyApplies f n := by decide

/-- Every attribute the mechanism consults is one of the documented names (nothing else can be set). -/
theorem C11_no_other_names : ∀ f ∈ [Format.delimited, .fixed, .excel, .ods], ∀ n ∈ attributeNames f, n ∈ allNames := by decide

/-- A name outside the format's table is refused with an interface error, whatever the value. -/
theorem C11_inapplicable_refused (df : DataFormat) (name value : Str) (k : Bool)
    (h : (attributeNames df.format).contains (propertyKey name) = false) :
    df.setProperty name value k = .error .iface := by
  simp only [DataFormat.setProperty, h, Bool.not_false, if_true]

/-- Completing a CID accepts the settings iff they are consistent: decimal and thousands separators
differ, and for delimited data the item delimiter differs from the quote character and from the line
delimiter, and the line delimiter from the quote and escape characters. -/
theorem C11_validate_iff (df : DataFormat) : df.validate = consistent df := by
  unfold DataFormat.validate consistent
  cases df.format <;> simp <;> grind

/-- Unset properties take their documented defaults. -/
theorem C11_defaults :
    (DataFormat.create "delimited".toList).map (fun d => (d.header, d.decimalSep, d.thousandsSep, d.itemDelim, d.quote, d.escape, d.lineDelim))
      = .ok (0, '.', none, ',', '"', '"', .any) ∧
    (DataFormat.create "fixed".toList).map (fun d => (d.header, d.decimalSep, d.thousandsSep, d.lineDelim)) = .ok (0, '.', none, .any) ∧
    (DataFormat.create "excel".toList).map (fun d => (d.header, d.sheet)) = .ok (0, 1) ∧
    (DataFormat.create "ods".toList).map (fun d => (d.header, d.sheet)) = .ok (0, 1) ∧
    (DataFormat.create "csv".toList).map (·.format) = .ok .delimited ∧
    DataFormat.create "nosuch".toList = .error .iface := ⟨rfl, rfl, rfl, rfl, rfl, rfl⟩

/-- Header: accepted iff the value is an integer literal that is not negative. -/
theorem C11_header_iff (df : DataFormat) (value : Str) (k : Bool) (ha : isAscii value = true) :
    (∃ df', df.setProperty "header".toList value k = .ok df') ↔ ∃ i : Int, pyIntBase10 value = some i ∧ 0 ≤ i := by
  have hn : (attributeNames df.format).contains "header" = true := by cases df.format <;> decide
  have hname : propertyKey "header".toList = "header" := by decide
  simp only [DataFormat.setProperty, hname, hn, Bool.not_true, Bool.false_eq_true, if_false]
  unfold DataFormat.setKnownProperty
  have e1 : ("header" == "encoding") = false := by decide
  simp only [e1, Bool.false_eq_true, if_false, beq_self_eq_true, if_true]
  unfold validatedIntAtLeast0
  simp only [ha, Bool.not_true, Bool.false_eq_true, if_false]
  cases hp : pyIntBase10 value with
  | none => simp [Except.map]
  | some i =>
    by_cases hi : i < 0
    · simp [hi, Except.map] <;> omega
    · simp [hi, Except.map] <;> omega

/-- Sheet: accepted iff the value is an integer literal that is at least 1. -/
theorem C11_sheet_iff (df : DataFormat) (value : Str) (k : Bool) (ha : isAscii value = true)
    (hf : df.format = .excel ∨ df.format = .ods) :
    (∃ df', df.setProperty "sheet".toList value k = .ok df') ↔ ∃ i : Int, pyIntBase10 value = some i ∧ 1 ≤ i := by
  have hn : (attributeNames df.format).contains "sheet" = true := by rcases hf with h | h <;> rw [h] <;> decide
  have hname : propertyKey "sheet".toList = "sheet" := by decide
  simp only [DataFormat.setProperty, hname, hn, Bool.not_true, Bool.false_eq_true, if_false]
  unfold DataFormat.setKnownProperty
  have e : ("sheet" == "encoding") = false ∧ ("sheet" == "header") = false ∧ ("sheet" == "allowed_characters") = false ∧
      ("sheet" == "decimal_separator") = false ∧ ("sheet" == "escape_character") = false ∧ ("sheet" == "item_delimiter") = false ∧
      ("sheet" == "line_delimiter") = false ∧ ("sheet" == "quote_character") = false ∧ ("sheet" == "quoting") = false := by decide
  simp only [e, Bool.false_eq_true, if_false, beq_self_eq_true, if_true]
  unfold validatedIntAtLeast0
  simp only [ha, Bool.not_true, Bool.false_eq_true, if_false]
  cases hp : pyIntBase10 value with
  | none => simp
  | some i =>
    by_cases hi : i < 0
    · simp [hi] <;> omega
    · simp only [hi, if_false]
      by_cases h1 : i.toNat ≥ 1
      · simp [h1] <;> omega
      · simp [h1] <;> omega

/-- A character given literally (a single character that is neither white space nor a digit) denotes itself. -/
theorem C11_spelling_literal (c : Char) (hs : isPySpace c = false) (hd : isAsciiDigit c = false) :
    validatedCharacterCode [c] = .ok c.toNat := by
  have : strip [c] = [c] := by simp [strip, rstrip, lstrip, hs]
  unfold validatedCharacterCode
  simp [this, hd]

/-- the range-limit spelling that corresponds to a character spelling -/
def limitSpelling : CharSpelling → Option LimitSp
  | .decimal => some .dec
  | .hex bigX up => some (.hex bigX up)
  | .quoted dq => some (.quoted dq)
  | .symbolic caps => some (.sym caps)
  | _ => none

/-- **The spellings of a character are interchangeable.** For every code point `c` and each of the
spellings decimal number, `0x`/`0X` hexadecimal number (digits in either case), quoted character
(either quote) and symbolic name (either case) that can express `c`, `_validated_character` returns
the character `c` itself — so all of them denote the same character as the literal spelling
(`C11_spelling_literal`).  Of the backslash-escape spellings inside quotes, `'\xHH'` is proved for all 256 codes
(`C11_escaped_hex`, by evaluating the whole table in the kernel); `'\uHHHH'` is checked by the exhaustive correspondence only
(65536 kernel evaluations of the tokenizer model are too slow, a symbolic proof of the string lexer on escapes is not done). -/
theorem C11_spellings (sp : CharSpelling) (lsp : LimitSp) (hsp : limitSpelling sp = some lsp) (c : Nat)
    (hl : sp.legal c = true) : validatedCharacter (spellChar sp c) = .ok (Char.ofNat c) := by
  have hscalar : c < 0x110000 ∧ ¬ (0xD800 ≤ c ∧ c ≤ 0xDFFF) := by
    unfold CharSpelling.legal at hl
    simp only [Bool.and_eq_true, decide_eq_true_eq, Bool.not_eq_true', decide_eq_false_iff_not] at hl
    exact ⟨hl.1.1, by simpa using hl.1.2⟩
  have hconv : lsp.Convertible (c : Int) := by
    cases lsp with
    | dec =>
      apply digits_within_limit
      have h7 : c < 10 ^ 7 := by simp; omega
      exact Nat.lt_of_lt_of_le h7 (Nat.pow_le_pow_right (by decide) (by decide))
    | hex _ _ => trivial
    | quoted _ => trivial
    | sym _ => trivial
  have key : ∀ (hlegal : lsp.Legal (c : Int)) (htext : spellChar sp c = renderLimit lsp 0 (c : Int)),
      validatedCharacter (spellChar sp c) = .ok (Char.ofNat c) := by
    intro hlegal htext
    unfold validatedCharacter
    rw [htext, validatedCharacterCode_limit lsp 0 (c : Int) (by omega) hlegal hconv]
    have h1 : ¬ ((c : Int) < 0) := by omega
    have h2 : ¬ ((c : Int) ≥ 0x110000) := by omega
    have h3 : ¬ ((0xD800 : Int) ≤ c ∧ (c : Int) ≤ 0xDFFF) := by omega
    simp [pyChr, h1, h2, h3]
  cases sp with
  | literal => simp [limitSpelling] at hsp
  | escapedHex _ => simp [limitSpelling] at hsp
  | escapedU _ => simp [limitSpelling] at hsp
  | decimal =>
    simp only [limitSpelling, Option.some.injEq] at hsp; subst hsp
    exact key trivial (by simp [spellChar, Spec.renderLimit])
  | hex bigX up =>
    simp only [limitSpelling, Option.some.injEq] at hsp; subst hsp
    exact key trivial (by simp [spellChar, Spec.renderLimit])
  | quoted dq =>
    simp only [limitSpelling, Option.some.injEq] at hsp; subst hsp
    apply key
    · unfold CharSpelling.legal at hl
      simp only [Bool.and_eq_true, decide_eq_true_eq, Bool.not_eq_true', bne_iff_ne, ne_eq] at hl
      obtain ⟨_, ⟨⟨h32, h127⟩, h92⟩, hq⟩ := hl
      refine ⟨by omega, by omega, by omega, by omega, by omega, ?_⟩
      cases dq <;> simp at hq ⊢ <;> omega
    · simp [spellChar, Spec.renderLimit]
  | symbolic caps =>
    simp only [limitSpelling, Option.some.injEq] at hsp; subst hsp
    apply key
    · unfold CharSpelling.legal at hl
      simp only [Bool.and_eq_true, decide_eq_true_eq] at hl
      exact ⟨by omega, by omega⟩
    · simp [spellChar, Spec.renderLimit]

/-- non-vacuity: the tabulator in five spellings -/
example : ["9", "0x9", "0X09", "'\t'", "tab", "TAB"].map (fun s => validatedCharacter s.toList) =
    [.ok '\t', .ok '\t', .ok '\t', .ok '\t', .ok '\t', .ok '\t'] := by rfl

/-- non-vacuity: a contradictory delimited format (item delimiter = quote character) is refused -/
example : ({ format := .delimited, itemDelim := '"' } : DataFormat).validate = false := by decide

/-- the escaped spelling `'\xHH'` (either quote) denotes the character with that code, for all 256 codes: decided by
evaluating `_validated_character`'s model - tokenizer, `unicode_escape` decoding, `chr()` - on the whole table in the kernel -/
theorem C11_escaped_hex_table : ((List.range 256).all (fun c =>
    (match validatedCharacter (spellChar (.escapedHex false) c) with | .ok ch => ch == Char.ofNat c | _ => false) &&
    (match validatedCharacter (spellChar (.escapedHex true) c) with | .ok ch => ch == Char.ofNat c | _ => false))) = true := by
  decide +kernel

theorem C11_escaped_hex (dq : Bool) (c : Nat) (hc : c < 256) :
    validatedCharacter (spellChar (.escapedHex dq) c) = .ok (Char.ofNat c) := by
  have h := List.all_eq_true.mp C11_escaped_hex_table c (List.mem_range.mpr hc)
  simp only [Bool.and_eq_true] at h
  cases dq with
  | false =>
    have h1 := h.1
    split at h1
    · rename_i ch heq; rw [heq]; simp at h1; rw [h1]
    · cases h1
  | true =>
    have h2 := h.2
    split at h2
    · rename_i ch heq; rw [heq]; simp at h2; rw [h2]
    · cases h2

end Cutplace.Props
