import Cutplace.Proofs.FixedLemmas
/-
C13  Fixed-width reading is lossless and aligned.
`fixedRows` is the transcription of `rowio.fixed_rows` (including the one-character push-back);
`Parses ws ld s rows` is the language of well-formed inputs: `s` is the concatenation of `rows`, every
item with its declared width, interleaved with line delimiters permitted by the setting (longest
match under `any`), the final one optional.  All theorems hold for every input string, every
non-empty list of positive widths and each of the five settings.
-/
namespace Cutplace.Props
open Cutplace Cutplace.Spec

/-- **Sound.** Whatever the reader returns is a lossless, aligned reading of the input. -/
theorem C13_sound (ws : List Nat) (ld : LineDelim) (s : Str) (rows : List (List Str))
    (hne : ws ≠ []) (hpos : ∀ w ∈ ws, 1 ≤ w) (h : fixedRows ws ld s = some rows) :
    Parses ws ld s rows := by
  rw [fixedRows_eq_spec ws ld s hne hpos] at h
  exact fixedParse_sound ws ld _ s rows h

/-- **Complete.** Every well-formed input is accepted, and read as the table it denotes. -/
theorem C13_complete (ws : List Nat) (ld : LineDelim) (s : Str) (rows : List (List Str))
    (hne : ws ≠ []) (hpos : ∀ w ∈ ws, 1 ≤ w) (h : Parses ws ld s rows) :
    fixedRows ws ld s = some rows := by
  rw [fixedRows_eq_spec ws ld s hne hpos]
  exact fixedParse_complete ws ld hne hpos s rows h _ (by omega)

/-- **No silent repair.** The reader fails (with a data-format error, `none`) exactly on the inputs
outside the language: short records and wrong or missing delimiters are never repaired. -/
theorem C13_no_repair (ws : List Nat) (ld : LineDelim) (s : Str) (hne : ws ≠ []) (hpos : ∀ w ∈ ws, 1 ≤ w) :
    fixedRows ws ld s = none ↔ ¬ ∃ rows, Parses ws ld s rows := by
  constructor
  · rintro h ⟨rows, hp⟩
    rw [C13_complete ws ld s rows hne hpos hp] at h
    exact absurd h (by simp)
  · intro h
    cases hr : fixedRows ws ld s with
    | none => rfl
    | some rows => exact absurd ⟨rows, C13_sound ws ld s rows hne hpos hr⟩ h

/-- What `Parses` gives: every item has exactly its declared width. -/
theorem C13_aligned (ws : List Nat) (ld : LineDelim) (s : Str) (rows : List (List Str))
    (h : Parses ws ld s rows) : ∀ row ∈ rows, row.map List.length = ws := by
  induction h with
  | nil => simp
  | last row hr => intro r hr'; simp at hr'; subst hr'; exact hr
  | cons row d rest rows' hr hd hp ih =>
    intro r hr'
    rcases List.mem_cons.mp hr' with rfl | h'
    · exact hr
    · exact ih r h'

/-- The reading is unambiguous: an input denotes at most one table. -/
theorem C13_unique (ws : List Nat) (ld : LineDelim) (s : Str) (rows rows' : List (List Str))
    (hne : ws ≠ []) (hpos : ∀ w ∈ ws, 1 ≤ w) (h : Parses ws ld s rows) (h' : Parses ws ld s rows') :
    rows = rows' := by
  have a := C13_complete ws ld s rows hne hpos h
  have b := C13_complete ws ld s rows' hne hpos h'
  rw [a] at b
  exact Option.some.inj b

/-- non-vacuity: `ab` CR LF `cd` CR `ef` under `any` with widths 1,1 -/
example : fixedRows [1, 1] .any "ab\r\ncd\ref".toList = some [[['a'], ['b']], [['c'], ['d']], [['e'], ['f']]] := by
  decide
example : Parses [1, 1] .any "ab\ncd".toList [[['a'], ['b']], [['c'], ['d']]] :=
  .cons [['a'], ['b']] ['\n'] ['c', 'd'] [[['c'], ['d']]] rfl (Or.inl rfl) (.last [['c'], ['d']] rfl)

end Cutplace.Props
