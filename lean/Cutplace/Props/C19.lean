import Cutplace.Spec.Sql
/-
C19  Generated SQL DDL mirrors the CID.
-/
namespace Cutplace.Props
open Cutplace Cutplace.Spec

/-- exactly one column per field, in CID order, carrying the field's name -/
theorem C19_columns (isKeyword : String → Bool) (fields : List SqlField) :
    (createTableColumns isKeyword fields).map (·.name) = fields.map (·.name) := by
  simp [createTableColumns, Function.comp_def]

/-- a name is quoted exactly when its lower-case form is a keyword of the dialect -/
theorem C19_quoting (isKeyword : String → Bool) (fields : List SqlField) :
    (createTableColumns isKeyword fields).map (·.quoted) = fields.map (fun f => isKeyword f.name.toLower) := by
  simp [createTableColumns, Function.comp_def]

/-- NOT NULL exactly for the fields not allowed to be empty -/
theorem C19_not_null (isKeyword : String → Bool) (fields : List SqlField) :
    (createTableColumns isKeyword fields).map (·.notNull) = fields.map (fun f => !f.allowEmpty) := by
  simp [createTableColumns, Function.comp_def]

theorem signAdjusted_bound (l m : Int) (h : signAdjusted l ≤ m) : -(m + 1) ≤ l ∧ l ≤ m := by
  unfold signAdjusted at h; split at h <;> omega

/-- **Partial** (Transact-SQL): for ranges without negative values, or with an adjusted limit above
255, the chosen integer type stores both limits — up to the 64 bit boundary.  (Excluded: negative
lower limits small enough for `tinyint`, and limits beyond `bigint`; see the counterexamples.) -/
theorem C19_int_fits_transact_partial (lo hi : Int) (hle : lo ≤ hi)
    (h : 0 ≤ lo ∨ ansiIntLimit lo hi > MAX_TINYINT) (hb : ansiIntLimit lo hi ≤ MAX_BIGINT) :
    canStore .transact (intColumnType .transact (ansiIntLimit lo hi)) lo = true ∧
    canStore .transact (intColumnType .transact (ansiIntLimit lo hi)) hi = true := by
  have h1 := signAdjusted_bound lo (ansiIntLimit lo hi) (by unfold ansiIntLimit; omega)
  have h2 := signAdjusted_bound hi (ansiIntLimit lo hi) (by unfold ansiIntLimit; omega)
  generalize ansiIntLimit lo hi = m at *
  unfold intColumnType
  simp only [MAX_TINYINT, MAX_SMALLINT, MAX_INTEGER, MAX_BIGINT] at *
  by_cases c1 : m ≤ 255
  · have : 0 ≤ lo := by omega
    simp [c1, intTypes, canStore]; omega
  · by_cases c2 : m ≤ 32767
    · simp [c1, c2, intTypes, canStore]; omega
    · by_cases c3 : m ≤ 2147483647
      · simp [c1, c2, c3, intTypes, canStore]; omega
      · simp [c1, c2, c3, hb, intTypes, canStore]; omega

/-- **Partial** (DB2): up to the 64 bit boundary the chosen type stores both limits. -/
theorem C19_int_fits_db2_partial (lo hi : Int) (hle : lo ≤ hi) (hb : ansiIntLimit lo hi ≤ MAX_BIGINT) :
    canStore .db2 (intColumnType .db2 (ansiIntLimit lo hi)) lo = true ∧
    canStore .db2 (intColumnType .db2 (ansiIntLimit lo hi)) hi = true := by
  have h1 := signAdjusted_bound lo (ansiIntLimit lo hi) (by unfold ansiIntLimit; omega)
  have h2 := signAdjusted_bound hi (ansiIntLimit lo hi) (by unfold ansiIntLimit; omega)
  generalize ansiIntLimit lo hi = m at *
  unfold intColumnType
  simp only [MAX_SMALLINT, MAX_INTEGER, MAX_BIGINT] at *
  by_cases c2 : m ≤ 32767
  · simp [c2, intTypes, canStore]; omega
  · by_cases c3 : m ≤ 2147483647
    · simp [c2, c3, intTypes, canStore]; omega
    · simp [c2, c3, hb, intTypes, canStore]; omega

/-- **Partial** (ANSI and PL/SQL): within 32 bits the chosen type (`int`) stores both limits. -/
theorem C19_int_fits_ansi_pl_partial (d : Dialect) (hd : d = .ansi ∨ d = .pl) (lo hi : Int) (hle : lo ≤ hi)
    (hb : ansiIntLimit lo hi ≤ MAX_INTEGER) :
    canStore d (intColumnType d (ansiIntLimit lo hi)) lo = true ∧
    canStore d (intColumnType d (ansiIntLimit lo hi)) hi = true := by
  have h1 := signAdjusted_bound lo (ansiIntLimit lo hi) (by unfold ansiIntLimit; omega)
  have h2 := signAdjusted_bound hi (ansiIntLimit lo hi) (by unfold ansiIntLimit; omega)
  generalize ansiIntLimit lo hi = m at *
  simp only [MAX_INTEGER] at hb
  rcases hd with rfl | rfl
  · simp [intColumnType, intTypes, canStore]; omega
  · have : ¬ m > 2147483647 := by omega
    simp [intColumnType, MAX_INTEGER, this, intTypes, canStore]; omega

/-- The full statement ("a type able to store both limits") fails in each dialect: -/
theorem C19_transact_tinyint_counterexample :
    canStore .transact (intColumnType .transact (ansiIntLimit (-5) 5)) (-5) = false := by decide
theorem C19_ansi_beyond_int_counterexample :
    canStore .ansi (intColumnType .ansi (ansiIntLimit 0 2147483648)) 2147483648 = false := by decide
theorem C19_decimal_precision_counterexample :
    canStore .transact (intColumnType .transact (ansiIntLimit 0 9223372036854775808)) 9223372036854775808 = false ∧
    canStore .db2 (intColumnType .db2 (ansiIntLimit 0 9223372036854775808)) 9223372036854775808 = false ∧
    canStore .pl (intColumnType .pl (ansiIntLimit 0 2147483648)) 2147483648 = false := by decide

/-- non-vacuity -/
example : canStore .transact (intColumnType .transact (ansiIntLimit (-32768) 32767)) (-32768) = true := by decide

end Cutplace.Props
