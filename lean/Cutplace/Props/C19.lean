import Cutplace.Spec.Sql
import Cutplace.Proofs.LengthRange
/-
C19  Generated SQL DDL mirrors the CID.
-/
namespace Cutplace.Props
open Cutplace Cutplace.Spec

/-- exactly one column per field, in CID order, carrying the field's name -/
theorem C19_columns (isKeyword : String → Bool) (fields : List SqlField) :
    (createTableColumns isKeyword fields).map (·.name) = fields.map (·.name) := by
  simp [createTableColumns, Function.comp_def]

/-- a name is quoted exactly when its lower-case form is a keyword of the dialect -/
theorem C19_quoting (isKeyword : String → Bool) (fields : List SqlField) :
    (createTableColumns isKeyword fields).map (·.quoted) = fields.map (fun f => isKeyword f.name.toLower) := by
  simp [createTableColumns, Function.comp_def]

/-- NOT NULL exactly for the fields not allowed to be empty -/
theorem C19_not_null (isKeyword : String → Bool) (fields : List SqlField) :
    (createTableColumns isKeyword fields).map (·.notNull) = fields.map (fun f => !f.allowEmpty) := by
  simp [createTableColumns, Function.comp_def]

theorem signAdjusted_bound (l m : Int) (h : signAdjusted l ≤ m) : -(m + 1) ≤ l ∧ l ≤ m := by
  unfold signAdjusted at h; split at h <;> omega

/-- **Partial** (Transact-SQL): for ranges without negative values, or with an adjusted limit above
255, the chosen integer type stores both limits — up to the 64 bit boundary.  (Excluded: negative
lower limits small enough for `tinyint`, and limits beyond `bigint`; see the counterexamples.) -/
theorem C19_int_fits_transact_partial (lo hi : Int) (hle : lo ≤ hi)
    (h : 0 ≤ lo ∨ ansiIntLimit lo hi > MAX_TINYINT) (hb : ansiIntLimit lo hi ≤ MAX_BIGINT) :
    canStore .transact (intColumnType .transact (ansiIntLimit lo hi)) lo = true ∧
    canStore .transact (intColumnType .transact (ansiIntLimit lo hi)) hi = true := by
  have h1 := signAdjusted_bound lo (ansiIntLimit lo hi) (by unfold ansiIntLimit; omega)
  have h2 := signAdjusted_bound hi (ansiIntLimit lo hi) (by unfold ansiIntLimit; omega)
  generalize ansiIntLimit lo hi = m at *
  unfold intColumnType
  simp only [MAX_TINYINT, MAX_SMALLINT, MAX_INTEGER, MAX_BIGINT] at *
  by_cases c1 : m ≤ 255
  · have : 0 ≤ lo := by omega
    simp [c1, intTypes, canStore]; omega
  · by_cases c2 : m ≤ 32767
    · simp [c1, c2, intTypes, canStore]; omega
    · by_cases c3 : m ≤ 2147483647
      · simp [c1, c2, c3, intTypes, canStore]; omega
      · simp [c1, c2, c3, hb, intTypes, canStore]; omega

/-- **Partial** (DB2): up to the 64 bit boundary the chosen type stores both limits. -/
theorem C19_int_fits_db2_partial (lo hi : Int) (hle : lo ≤ hi) (hb : ansiIntLimit lo hi ≤ MAX_BIGINT) :
    canStore .db2 (intColumnType .db2 (ansiIntLimit lo hi)) lo = true ∧
    canStore .db2 (intColumnType .db2 (ansiIntLimit lo hi)) hi = true := by
  have h1 := signAdjusted_bound lo (ansiIntLimit lo hi) (by unfold ansiIntLimit; omega)
  have h2 := signAdjusted_bound hi (ansiIntLimit lo hi) (by unfold ansiIntLimit; omega)
  generalize ansiIntLimit lo hi = m at *
  unfold intColumnType
  simp only [MAX_SMALLINT, MAX_INTEGER, MAX_BIGINT] at *
  by_cases c2 : m ≤ 32767
  · simp [c2, intTypes, canStore]; omega
  · by_cases c3 : m ≤ 2147483647
    · simp [c2, c3, intTypes, canStore]; omega
    · simp [c2, c3, hb, intTypes, canStore]; omega

/-- **Partial** (ANSI and PL/SQL): within 32 bits the chosen type (`int`) stores both limits. -/
theorem C19_int_fits_ansi_pl_partial (d : Dialect) (hd : d = .ansi ∨ d = .pl) (lo hi : Int) (hle : lo ≤ hi)
    (hb : ansiIntLimit lo hi ≤ MAX_INTEGER) :
    canStore d (intColumnType d (ansiIntLimit lo hi)) lo = true ∧
    canStore d (intColumnType d (ansiIntLimit lo hi)) hi = true := by
  have h1 := signAdjusted_bound lo (ansiIntLimit lo hi) (by unfold ansiIntLimit; omega)
  have h2 := signAdjusted_bound hi (ansiIntLimit lo hi) (by unfold ansiIntLimit; omega)
  generalize ansiIntLimit lo hi = m at *
  simp only [MAX_INTEGER] at hb
  rcases hd with rfl | rfl
  · simp [intColumnType, intTypes, canStore]; omega
  · have : ¬ m > 2147483647 := by omega
    simp [intColumnType, MAX_INTEGER, this, intTypes, canStore]; omega

/-- The full statement ("a type able to store both limits") still fails in two places: -/
theorem C19_transact_tinyint_counterexample :
    canStore .transact (intColumnType .transact (ansiIntLimit (-5) 5)) (-5) = false := by decide
theorem C19_ansi_beyond_int_counterexample :
    canStore .ansi (intColumnType .ansi (ansiIntLimit 0 2147483648)) 2147483648 = false := by decide

/-- every integer of a range whose sign-adjusted limit is `m` has fewer than `decimalDigitsFor m` + 1 digits -/
theorem natAbs_lt_pow_digits (x m : Int) (hm : 0 ≤ m) (hx : -(m + 1) ≤ x ∧ x ≤ m) :
    x.natAbs < 10 ^ (decimalDigitsFor m).toNat := by
  unfold decimalDigitsFor natRepr
  simp only [List.length_map, Int.toNat_natCast]
  have h := (numDigits_le_iff (m + 1).toNat (numDigits (m + 1).toNat) (numDigits_pos _)).mp (Nat.le_refl _)
  unfold numDigits at h
  have : x.natAbs ≤ (m + 1).toNat := by omega
  omega

/-- **Beyond the integer types** (since b3fd201: the precision is the number of digits, before it was the limit itself):
when the range exceeds the biggest integer type of the dialect, the column is `decimal(p[, 0])` / `number(p, 0)` with
`p = decimalDigitsFor limit`, and it stores both limits whenever `p` is a precision the dialect allows. -/
theorem C19_int_fits_decimal (d : Dialect) (hd : d ≠ .ansi) (lo hi : Int) (hle : lo ≤ hi)
    (hbig : if d = .pl then ansiIntLimit lo hi > MAX_INTEGER else ansiIntLimit lo hi > MAX_BIGINT)
    (hp : decimalDigitsFor (ansiIntLimit lo hi) ≤ maxPrecision d) :
    canStore d (intColumnType d (ansiIntLimit lo hi)) lo = true ∧
    canStore d (intColumnType d (ansiIntLimit lo hi)) hi = true := by
  have h1 := signAdjusted_bound lo (ansiIntLimit lo hi) (by unfold ansiIntLimit; omega)
  have h2 := signAdjusted_bound hi (ansiIntLimit lo hi) (by unfold ansiIntLimit; omega)
  generalize ansiIntLimit lo hi = m at *
  have hm0 : 0 ≤ m := by
    split at hbig <;> simp only [MAX_INTEGER, MAX_BIGINT] at hbig <;> omega
  have hlo := natAbs_lt_pow_digits lo m hm0 h1
  have hhi := natAbs_lt_pow_digits hi m hm0 h2
  have hp1 : 1 ≤ decimalDigitsFor m := by
    unfold decimalDigitsFor natRepr
    simp only [List.length_map]
    have := numDigits_pos (m + 1).toNat
    unfold numDigits at this
    omega
  cases d with
  | ansi => exact absurd rfl hd
  | pl =>
    simp only [if_true, MAX_INTEGER] at hbig
    simp [intColumnType, MAX_INTEGER, hbig, intTypes, canStore, hp1, hp, hlo, hhi]
  | transact =>
    simp only [reduceCtorEq, if_false, MAX_BIGINT] at hbig
    have c1 : ¬ m ≤ 255 := by omega
    have c2 : ¬ m ≤ 32767 := by omega
    have c3 : ¬ m ≤ 2147483647 := by omega
    have c4 : ¬ m ≤ 9223372036854775807 := by omega
    simp [intColumnType, MAX_TINYINT, MAX_SMALLINT, MAX_INTEGER, MAX_BIGINT, c1, c2, c3, c4, intTypes, canStore, hp1, hp, hlo, hhi]
  | db2 =>
    simp only [reduceCtorEq, if_false, MAX_BIGINT] at hbig
    have c2 : ¬ m ≤ 32767 := by omega
    have c3 : ¬ m ≤ 2147483647 := by omega
    have c4 : ¬ m ≤ 9223372036854775807 := by omega
    simp [intColumnType, MAX_SMALLINT, MAX_INTEGER, MAX_BIGINT, c2, c3, c4, intTypes, canStore, hp1, hp, hlo, hhi]

/-- the boundary case that needs the extra digit: `-10^19` has 20 digits although its sign-adjusted limit has 19 -/
example : canStore .db2 (intColumnType .db2 (ansiIntLimit (-10000000000000000000) 5)) (-10000000000000000000) = true := by decide +kernel

/-- non-vacuity -/
example : canStore .transact (intColumnType .transact (ansiIntLimit (-32768) 32767)) (-32768) = true := by decide

end Cutplace.Props
