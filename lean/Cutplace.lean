import Cutplace.Model.Py
import Cutplace.Model.PyTok
import Cutplace.Model.Range
import Cutplace.Spec.Range
