import Driver.OpsEngine
import Driver.OpsRange
import Cutplace.Spec.DataFormat
namespace Driver
open Cutplace Cutplace.Spec

def encLineDelim : LineDelimSetting → String
  | .any => "any" | .lf => "lf" | .cr => "cr" | .crlf => "crlf" | .none => "none"

def formatName : Format → String
  | .delimited => "delimited" | .fixed => "fixed" | .excel => "excel" | .ods => "ods"

def encDataFormat (df : DataFormat) : String :=
  let common := "format=" ++ formatName df.format ++ " header=" ++ toString df.header ++ " encoding=" ++ encStr df.encoding ++
    " allowed=" ++ (match df.allowed with | none => "n" | some r => (match r.items with | some its => encItems its | none => "n"))
  let delim := " escape=" ++ encStr [df.escape] ++ " item=" ++ encStr [df.itemDelim] ++ " quote=" ++ encStr [df.quote] ++
    " quoting=" ++ (if df.quotingAll then "all" else "minimal") ++ " skip=" ++ b01 df.skipInitialSpace
  let sep := " decimal=" ++ encStr [df.decimalSep] ++ " line=" ++ encLineDelim df.lineDelim ++
    " thousands=" ++ (match df.thousandsSep with | none => "-" | some c => encStr [c])
  match df.format with
  | .delimited => common ++ delim ++ sep
  | .fixed => common ++ sep
  | _ => common ++ " sheet=" ++ toString df.sheet

def decSpelling (s : String) : CharSpelling :=
  match s.toList with
  | ['L'] => .literal
  | ['D'] => .decimal
  | ['H', a, b] => .hex (a == '1') (b == '1')
  | ['Q', a] => .quoted (a == '1')
  | ['X', a] => .escapedHex (a == '1')
  | ['U', a] => .escapedU (a == '1')
  | ['S', a] => .symbolic (a == '1')
  | _ => .decimal

def applySteps : DataFormat → List String → List String × DataFormat
  | df, [] => ([], df)
  | df, st :: rest =>
    match st.splitOn ":" with
    | [n, v, k] =>
      match df.setProperty (decStr n) (decStr v) (k == "1") with
      | .ok df' => let r := applySteps df' rest; ("ok" :: r.1, r.2)
      | .error e => let r := applySteps df rest; (e.tag :: r.1, r.2)
    | _ => (["bad-step"], df)

def opDataFormat (args : List String) : String :=
  match args with
  -- `df <format> <steps>`: apply set_property steps in order, then validate
  | ["df", fmt, steps] =>
    match DataFormat.create (decStr fmt) with
    | .error e => "create:" ++ e.tag
    | .ok df =>
      let (outs, df') := applySteps df (splitList steps ";")
      "ok steps=" ++ encList outs ++ " valid=" ++ b01 df'.validate ++ " spec_valid=" ++ b01 (consistent df') ++ " " ++ encDataFormat df'
  -- `df.spell <spelling> <code>`: the text of that spelling and whether it is legal
  | ["df.spell", sp, code] =>
    let s := decSpelling sp
    let c := code.toNat!
    "legal=" ++ b01 (s.legal c) ++ " text=" ++ encStr (spellChar s c) ++ " model=" ++
      (match (({ format := .delimited } : DataFormat).setProperty "item_delimiter".toList (spellChar s c) true) with
       | .ok df => "ok:" ++ toString df.itemDelim.toNat
       | .error e => e.tag)
  | ["df.applies", fmt, name] =>
    match DataFormat.create (decStr fmt) with
    | .error e => "create:" ++ e.tag
    | .ok df => "spec=" ++ b01 (propertyApplies df.format name) ++ " model=" ++ b01 ((attributeNames df.format).contains name)
  | _ => "bad-op"

end Driver
