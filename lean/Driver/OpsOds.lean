import Driver.OpsEngine
import Cutplace.Spec.Ods
namespace Driver
open Cutplace Cutplace.Spec

partial def encXml : Xml → String
  | .node tag attrs text kids tail =>
    "N(" ++ tag ++ "|" ++ ";".intercalate (attrs.map (fun (k, v) => k ++ "=" ++ String.ofList v)) ++ "|" ++
      (match text with | none => "n" | some t => "T" ++ encStr t) ++ "|" ++ "".intercalate (kids.map encXml) ++ "|" ++
      (match tail with | none => "n" | some t => "T" ++ encStr t) ++ ")"

def decDoc (s : String) : OdsDoc := if s == "" then [] else (s.splitOn "|").map (fun sh => if sh == "~" then [] else decRows sh)

def encOptRows (rows : List (List (Option Str))) : String :=
  if rows.isEmpty then "~" else ";".intercalate (rows.map (fun r =>
    if r.isEmpty then "E" else ",".intercalate (r.map (fun c => match c with | none => "N" | some t => encStr t))))

/-- `ods <features: 5 bits col,row,ws,span,para> <sheet> <doc>` -/
def opOds (args : List String) : String :=
  match args with
  | ["ods", feats, sheet, doc] =>
    let b (i : Nat) : Bool := (feats.toList.getD i '0') == '1'
    let f : OdsFeatures := { colRuns := b 0, rowRuns := b 1, whitespace := b 2, spans := b 3, paragraphs := b 4 }
    let d := decDoc doc
    let tree := encodeDoc f d
    let res := match odsRows (some tree) sheet.toNat! with
      | .rows r => "ok " ++ encOptRows r
      | .formatError => "data:Format"
      | .unsupported => "unsupported"
    "M=" ++ res ++ "\tX=" ++ encXml tree
  -- the same with the rows of every sheet wrapped into row containers (`regroupDoc`)
  | ["odsg", feats, sheet, doc] =>
    let b (i : Nat) : Bool := (feats.toList.getD i '0') == '1'
    let f : OdsFeatures := { colRuns := b 0, rowRuns := b 1, whitespace := b 2, spans := b 3, paragraphs := b 4 }
    let tree := regroupDoc (encodeDoc f (decDoc doc))
    let res := match odsRows (some tree) sheet.toNat! with
      | .rows r => "ok " ++ encOptRows r
      | .formatError => "data:Format"
      | .unsupported => "unsupported"
    "M=" ++ res ++ "\tX=" ++ encXml tree
  -- the same with every second cell of every row stored as covered cell (`coverDoc`)
  | ["odsc", feats, sheet, doc] =>
    let b (i : Nat) : Bool := (feats.toList.getD i '0') == '1'
    let f : OdsFeatures := { colRuns := b 0, rowRuns := b 1, whitespace := b 2, spans := b 3, paragraphs := b 4 }
    let tree := coverDoc (encodeDoc f (decDoc doc))
    let res := match odsRows (some tree) sheet.toNat! with
      | .rows r => "ok " ++ encOptRows r
      | .formatError => "data:Format"
      | .unsupported => "unsupported"
    "M=" ++ res ++ "\tX=" ++ encXml tree
  | _ => "bad-op"

end Driver
