import Driver.OpsFields
import Cutplace.Model.Checks
namespace Driver
open Cutplace

def encRowErr : RowErr → String
  | .count => "N"
  | .field c => "F" ++ toString c
  | .check i s => "C" ++ toString i ++ ":" ++ (match s with | none => "n" | some l => toString l)

def encEvent : Event → String
  | .row _ => "r"
  | .err l e => "e" ++ toString l ++ ":" ++ encRowErr e

def encCall : Call → String
  | .hook c a => "h" ++ toString c ++ ":" ++ encStr a
  | .reset i => "z" ++ toString i
  | .checkRow i _ l => "c" ++ toString i ++ "@" ++ toString l
  | .atEnd i => "a" ++ toString i
  | .cleanup i => "x" ++ toString i

def encList (xs : List String) : String := if xs.isEmpty then "~" else ",".intercalate xs

def decRows (s : String) : List Row :=
  (splitList s ";").map (fun r => if r == "E" then [] else (r.splitOn ",").map decStr)

def encRows (rs : List Row) : String :=
  if rs.isEmpty then "~" else ";".intercalate (rs.map (fun r => if r.isEmpty then "E" else ",".intercalate (r.map encStr)))

def fieldColumn (f : Field) : Column :=
  { pre := f.pre,
    hook := fun s => match f.kind.validatedValue s with
      | .ok (some _) => true
      | _ => false }

/-- does any cell leave the modelled fragment for this field? -/
def fieldUnsupported (f : Field) (v : Str) : Bool :=
  match f.validated v with
  | .error _ => true
  | .ok _ => false

def decCheck (names : List Str) (s : String) : Out (Check CState) :=
  match s.splitOn ":" with
  | ["U", rule] => (parseIsUnique (decStr rule) names).map isUniqueCheck
  | ["D", rule] => (parseDistinctCount (decStr rule) names).map (fun (c, cmp, n) => distinctCountCheck c cmp n)
  | ["S", col, veto, fail] => .ok (scriptedCheck col.toNat! (decStr veto) (fail == "1"))
  | _ => .error .unsupported

def decMode (s : String) : Mode := if s == "raise" then .raise else if s == "yield" then .yield else .continue

def collectOut {α} : List (Out α) → Out (List α)
  | [] => .ok []
  | x :: xs => match x, collectOut xs with
    | .ok a, .ok as => .ok (a :: as)
    | .error e, _ => .error e
    | _, .error e => .error e

/-- smallest raw-row prefix whose processing yields at least `k` events -/
def prefixFor (cfg : ReaderCfg) (cols : List Column) (checks : List (Check CState)) (rows : List Row) (k : Nat) :
    Option Nat :=
  (List.range (rows.length + 1)).find? (fun n =>
    (readRows cfg cols checks false (rows.take n) []).events.length ≥ k)

def encFinal : Final → String
  | .exhausted => "done"
  | .raised l e => "raised" ++ toString l ++ ":" ++ encRowErr e
  | .format l => "format" ++ toString l

def padRow (widths : List Nat) (row : Row) : Row :=
  (row.zip widths).map (fun (c, w) => c ++ List.replicate (w - c.length) ' ')

/-- one run on the shared check states; returns output text and the new states -/
def doRun (cols : List Column) (checks : List (Check CState)) (header : Nat) (widths : Option (List Nat))
    (sts : List CState) (run : String) : String × List CState :=
  match run.splitOn ":" with
  | ["R", api, mode, limit, fault, stop, close, rows] =>
    let cfg : ReaderCfg := ⟨decMode mode, header, (if limit == "n" then none else some limit.toNat!)⟩
    let rs := decRows rows
    let stopK : Option Nat := if stop == "n" then none else some stop.toNat!
    if stopK == some 0 then
      if api == "v" then
        -- `validate(…, validate_until=0)` (`Run.validate0`): `rows()` resets the checks, no row is ever requested, the `with` block closes
        let out := runOne cols checks id sts .validate0
        let c := closeValidator checks out.2
        ("ev=~ fin=unstarted acc=n rej=n close=" ++ (match out.1.closeFail with | none => "ok" | some i => "chk" ++ toString i) ++
          " log=" ++ encList ((resetCalls checks.length ++ c.2).map encCall), out.2)
      else ("ev=~ fin=unstarted acc=n rej=n close=skipped log=~", sts)
    else
      let cut : Option Nat := match stopK with
        | none => none
        | some k => prefixFor cfg cols checks rs k
      let (res, abandoned) := match cut with
        | some n => (readRows cfg cols checks false (rs.take n) sts, true)
        | none => (readRows cfg cols checks (fault == "1") rs sts, false)
      let evs := match stopK, abandoned with
        | some k, true => res.events.take k
        | _, _ => res.events
      -- close: the function API always closes a started generator; the class API on request
      let doClose := api == "f" || api == "v" || close == "1"
      let (closeTxt, closeLog) :=
        if doClose then
          let c := closeValidator checks res.st.sts
          ((match c.1 with | none => "ok" | some i => "chk" ++ toString i), c.2)
        else ("skipped", [])
      let fin := if abandoned then "abandoned" else encFinal res.final
      ("ev=" ++ encList (evs.map encEvent) ++ " fin=" ++ fin ++ " acc=" ++ toString res.st.accepted ++
        " rej=" ++ toString res.st.rejected ++ " close=" ++ closeTxt ++
        " log=" ++ encList ((res.log ++ closeLog).map encCall), res.st.sts)
  | ["W", close, rows] =>
    let rs := decRows rows
    let (w0, l0) := writerInit checks sts
    let pad : Row → Row := match widths with | some ws => padRow ws | none => id
    let (w1, errs, l1) := writeRows header pad cols checks w0 rs
    let (closeTxt, closeLog) :=
      if close == "1" then
        let c := closeValidator checks w1.sts
        ((match c.1 with | none => "ok" | some i => "chk" ++ toString i), c.2)
      else ("skipped", [])
    ("w=" ++ encList (errs.map (fun e => match e with | none => "k" | some x => encRowErr x)) ++
      " out=" ++ encRows w1.out ++ " close=" ++ closeTxt ++
      " log=" ++ encList ((l0 ++ l1 ++ closeLog).map encCall), w1.sts)
  | _ => ("bad-run", sts)

def doRuns (cols : List Column) (checks : List (Check CState)) (header : Nat) (widths : Option (List Nat)) :
    List CState → List String → List String
  | _, [] => []
  | sts, r :: rs =>
    let (o, sts') := doRun cols checks header widths sts r
    o :: doRuns cols checks header widths sts' rs

def runRows (run : String) : List Row :=
  match run.splitOn ":" with
  | ["R", _, _, _, _, _, _, rows] => decRows rows
  | ["W", _, rows] => decRows rows
  | _ => []

/-- `engine <fmt> <allowed|n> <fields> <names> <checks> <header> <runs>` -/
def opEngine (args : List String) : String :=
  match args with
  | ["engine", fmt, allowed, fields, names, checks, header, runs] =>
    let allowedR : Out (Option Range) :=
      if allowed == "n" then .ok none else (Range.parse (decStr allowed)).map some
    match allowedR with
    | .error e => "allowed:" ++ e.tag
    | .ok al =>
      let format := decFormat fmt
      let fs : Out (List Field) := collectOut ((splitList fields ";").map (fun s =>
        match s.splitOn ":" with
        | [ty, empty, len, rule] =>
          match decTypeName ty with
          | some tn => declareField tn format al (empty == "1") (decStr len) (decStr rule)
          | none => .error .unsupported
        | _ => .error .unsupported))
      match fs with
      | .error e => "field:" ++ e.tag
      | .ok fl =>
        let nameList := (splitList names ",").map decStr
        match collectOut ((splitList checks ";").map (decCheck nameList)) with
        | .error e => "check:" ++ e.tag
        | .ok cl =>
          let runList := splitList runs "|"
          let allRows := runList.flatMap runRows
          let unsupported := allRows.any (fun r => (r.zip fl).any (fun (c, f) => fieldUnsupported f c))
          if unsupported then "unsupported"
          else
            let cols := fl.map fieldColumn
            let widths : Option (List Nat) :=
              if format == .fixed then some (fl.map (fun f => (f.length.lowerLimit.getD 0).toNat)) else none
            "ok " ++ " | ".intercalate (doRuns cols cl header.toNat! widths (cl.map (·.reset)) runList)
  | _ => "bad-op"

end Driver
