import Driver.OpsDataFormat
import Cutplace.Model.Csv
namespace Driver
open Cutplace Cutplace.Csv

def decCfg (d q e dq qa sk : String) : Cfg :=
  { delim := (decStr d).headD ',', quote := (decStr q).headD '"', esc := (decStr e).head?, dq := dq == "1", quoteAll := qa == "1",
    skipInitialSpace := sk == "1" }

def encParsed : Option (List (List (List Char))) → String
  | none => "error"
  | some t => "ok " ++ encRows t

def opCsv (args : List String) : String :=
  match args with
  -- round trip: written text, and what reading it back gives
  | ["csv.rt", d, q, e, dq, qa, sk, tbl] =>
    let cfg := decCfg d q e dq qa sk
    match renderTable cfg (decRows tbl) with
    | none => "werr"
    | some s => "text=" ++ encStr s ++ " back=" ++ (match parse cfg s with | none => "error" | some t => encRows t)
  | ["csv.parse", d, q, e, dq, qa, sk, text] => encParsed (parse (decCfg d q e dq qa sk) (decStr text))
  | _ => "bad-op"

end Driver
