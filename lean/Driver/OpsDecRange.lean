import Driver.OpsRange
import Cutplace.Spec.DecRange
namespace Driver
open Cutplace Cutplace.Spec

def encDec (d : Dec) : String := String.ofList d.tupleText
def encOptDec : Option Dec → String
  | none => "n"
  | some d => encDec d
def encDItem (it : DItem) : String := encOptDec it.lo ++ "/" ++ encOptDec it.hi
def encDItems (its : List DItem) : String := if its.isEmpty then "~" else ";".intercalate (its.map encDItem)

/-- literal `<n|p><coeff>e<frac>` -/
def decDLit (s : String) : DLit :=
  let body := (s.drop 1).toString
  match body.splitOn "e" with
  | [c, f] => ⟨s.front == 'n', c.toNat!, f.toNat!⟩
  | _ => ⟨false, 0, 0⟩

/-- `s<lit>` single, `c<lit>:<lit>` closed, `f<lit>` from, `u<lit>` upto -/
def decDItemD (s : String) : DItemD :=
  let body := (s.drop 1).toString
  match s.front with
  | 's' => .single (decDLit body)
  | 'c' => match body.splitOn ":" with
           | [l, u] => .closed (decDLit l) (decDLit u)
           | _ => .single ⟨false, 0, 0⟩
  | 'f' => .from_ (decDLit body)
  | _ => .upto (decDLit body)

/-- `<sep>/<p0>,<pm>,<p1>,<p2>,<p3>` -/
def decDItemSp (s : String) : DItemSp :=
  match s.splitOn "/" with
  | [sep, pads] =>
    let p := (pads.splitOn ",").map String.toNat!
    { sep := (if sep == "d" then .dots else if sep == "c" then .colon else .ellipsis),
      pad := (p.getD 0 0, p.getD 1 0, p.getD 2 0, p.getD 3 0, p.getD 4 0) }
  | _ => {}

/-- verdict of `DecimalRange.validate(name, text)`: `1` accepted, `0` RangeValueError, `!` InvalidOperation, `?` outside the model -/
def dValidateText (r : DecimalRange) (t : Str) : Char :=
  match pyDecimal t with
  | .unsupported => '?'
  | .invalid => '0'
  | .ok d => match r.validate d with
    | none => '!'
    | some true => '1'
    | some false => '0'

def opDecRange (args : List String) : String :=
  match args with
  | ["drange.model", desc, vals] =>
    match DecimalRange.parse (decStr desc) with
    | .error e => e.tag
    | .ok r =>
      match r.items with
      | none => "ok none"
      | some its =>
        "ok items=" ++ encDItems its ++ " prec=" ++ toString r.precision ++ " scale=" ++ toString r.scale ++
          " lo=" ++ encOptDec r.lowerLimit ++ " hi=" ++ encOptDec r.upperLimit ++
          " bits=" ++ String.ofList ((splitList vals ",").map (fun v => dValidateText r (decStr v)))
  | ["drange.spec", items, spells, vals] =>
    let d : DRangeDesc := (splitList items ";").map decDItemD
    let sps : List DItemSp := (splitList spells ";").map decDItemSp
    let vs : List DLit := (splitList vals ",").map decDLit
    "wf=" ++ b01 (decide (DWellFormed d)) ++ " text=" ++ encStr (renderD d sps) ++ " items=" ++ encDItems (ddenote d) ++
      " lo=" ++ encOptDec ((dSpecLower d).map DLit.toDec) ++ " hi=" ++ encOptDec ((dSpecUpper d).map DLit.toDec) ++
      " vtexts=" ++ ",".intercalate (vs.map (fun v => encStr (renderDLit 0 v))) ++
      " bits=" ++ encBits (vs.map (fun v => decide (DAccepts d v.toRat)))
  | _ => "bad-op"

end Driver
