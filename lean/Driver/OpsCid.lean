import Driver.OpsDataFormat
import Cutplace.Model.Cid
namespace Driver
open Cutplace

def encField (f : CidField) : String :=
  encStr f.name ++ ":" ++ String.ofList f.typeName ++ ":" ++ b01 f.field.allowEmpty ++ ":" ++
    (match f.field.length.items with | none => "n" | some its => encItems its) ++ ":" ++ encStr f.rule

def encCid (c : Cid) : String :=
  "df=" ++ (match c.dataFormat with | none => "none" | some d => (encDataFormat d).replace " " "|") ++
  " fields=" ++ (if c.fields.isEmpty then "~" else "/".intercalate (c.fields.map encField)) ++
  " checks=" ++ (if c.checks.isEmpty then "~" else "/".intercalate (c.checks.map (fun (d, t, _) => encStr d ++ ":" ++ t)))

/-- `cid.read <plugins01> <known encodings> <rows>` -/
def opCid (args : List String) : String :=
  match args with
  | ["cid.read", plugins, known, rows] =>
    let knownList := (splitList known ",").map decStr
    match Cid.read (decRows rows) (plugins == "1") (fun v => knownList.contains v) with
    | .ok c => "ok " ++ encCid c
    | .error e => e.exn.tag ++ "@" ++ (match e.line with | none => "n" | some l => toString l)
  | _ => "bad-op"

end Driver
