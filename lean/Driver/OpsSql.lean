import Driver.Proto
import Cutplace.Spec.Sql
namespace Driver
open Cutplace Cutplace.Spec

def decDialect (s : String) : Dialect :=
  if s == "DB2" then .db2 else if s == "Transact-SQL" then .transact else if s == "PL/SQL" then .pl else .ansi

/-- `sql.int <dialect> <lo> <hi>` -/
def opSql (args : List String) : String :=
  match args with
  | ["sql.int", d, lo, hi] =>
    let dialect := decDialect d
    let l := decInt lo
    let h := decInt hi
    let t := intColumnType dialect (ansiIntLimit l h)
    "type=" ++ t.name ++ " args=" ++ (if t.args.isEmpty then "~" else ",".intercalate (t.args.map toString)) ++
      " lo=" ++ (if canStore dialect t l then "1" else "0") ++ " hi=" ++ (if canStore dialect t h then "1" else "0")
  | _ => "bad-op"

end Driver
