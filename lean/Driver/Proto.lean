import Cutplace.Model.Py
/- line protocol helpers: strings travel as code points in hex joined by `.`, `-` = empty -/
namespace Driver
open Cutplace

def hexNat (s : String) : Nat :=
  s.foldl (fun a c => a * 16 + (if c.isDigit then c.toNat - 48 else if c.toNat ≥ 97 then c.toNat - 87 else c.toNat - 55)) 0

def decStr (s : String) : Str :=
  if s == "-" || s == "" then [] else (s.splitOn ".").map (fun h => Char.ofNat (hexNat h))

def encStr (cs : Str) : String :=
  if cs.isEmpty then "-" else ".".intercalate (cs.map (fun c => String.ofList (Nat.toDigits 16 c.toNat)))

def decInt (s : String) : Int :=
  match s.toInt? with
  | some i => i
  | none => 0

def decOptInt (s : String) : Option Int := if s == "n" then none else s.toInt?
def encOptInt : Option Int → String
  | none => "n"
  | some i => toString i

/-- split on a separator, empty string = empty list -/
def splitList (s : String) (sep : String) : List String := if s == "" || s == "~" then [] else s.splitOn sep

def decIntList (s : String) : List Int := (splitList s ",").map decInt
def encBits (bs : List Bool) : String := String.ofList (bs.map (fun b => if b then '1' else '0'))

def encOut {α} (f : α → String) : Out α → String
  | .ok a => "ok " ++ f a
  | .error e => e.tag

end Driver
