import Driver.OpsEngine
import Cutplace.Spec.Fixed
namespace Driver
open Cutplace Cutplace.Spec

def decLineDelim (s : String) : LineDelim :=
  if s == "lf" then .lf else if s == "cr" then .cr else if s == "crlf" then .crlf else if s == "none" then .none else .any

def encTable : Option (List (List Str)) → String
  | none => "error"
  | some rows => "ok " ++ encRows rows

/-- `fixed <widths> <ld> <text>` -/
def opFixed (args : List String) : String :=
  match args with
  | ["fixed", widths, ld, text] =>
    let ws := (splitList widths ",").map String.toNat!
    let s := decStr text
    let l := decLineDelim ld
    "M=" ++ encTable (fixedRows ws l s) ++ "\tS=" ++ encTable (fixedSpec ws l s)
  | _ => "bad-op"

end Driver
