import Driver.OpsEngine
import Cutplace.Model.Excel
import Cutplace.Spec.Excel
namespace Driver
open Cutplace

/-- cell encoding: `T<hex>` text, `W<int>` whole number, `N<hex>` other number (its Python repr), `B0/B1`,
`D<days>:<seconds>` date, `C<y>-<m>-<d>:<seconds>` date given as civil date, `X<hex>` error text, `E` empty -/
def decXCell (s : String) : XCell :=
  let body := (s.drop 1).toString
  match s.front with
  | 'T' => .text (decStr body)
  | 'W' => .whole (decInt body)
  | 'N' => .number (decStr body)
  | 'B' => .bool (body == "1")
  | 'D' => match body.splitOn ":" with
           | [d, sec] => .date d.toNat! sec.toNat!
           | _ => .empty
  | 'C' => -- a civil date `y-m-d:seconds`: the serial number comes from the specification's calendar (`excelSerial`)
           match body.splitOn ":" with
           | [ymd, sec] => match ymd.splitOn "-" with
             | [y, m, d] => .date (excelSerial y.toNat! m.toNat! d.toNat!) sec.toNat!
             | _ => .empty
           | _ => .empty
  | 'X' => .error (decStr body)
  | _ => .empty

/-- `excel <sheet> <workbook>`: sheets `|`, rows `;`, cells `,`; an empty sheet is `~` -/
def opExcel (args : List String) : String :=
  match args with
  | ["excel", sheet, wb] =>
    let sheets : List XSheet := (wb.splitOn "|").map (fun sh =>
      if sh == "~" then [] else (sh.splitOn ";").map (fun r => if r == "E" then [] else (r.splitOn ",").map decXCell))
    match excelRows sheets sheet.toNat! with
    | none => "data:Format"
    | some rows => "ok " ++ encRows rows
  | _ => "bad-op"

end Driver
