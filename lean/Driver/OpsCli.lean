import Driver.Proto
import Cutplace.Model.Cli
namespace Driver
open Cutplace

/-- `cli <usage01> <cid: ok|rejected|unreadable> <files: a,r,u,...>` -/
def opCli (args : List String) : String :=
  match args with
  | ["cli", usage, cid, files] =>
    let c : CidLoad := if cid == "ok" then .ok else if cid == "rejected" then .rejected else .unreadable
    let fs : List FileVerdict := (splitList files ",").map (fun f =>
      if f == "a" then .accepted else if f == "r" then .rejected else .unreadable)
    toString (cliMain (usage == "1") c fs)
  | _ => "bad-op"

end Driver
