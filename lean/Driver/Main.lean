import Driver.OpsRange
import Driver.OpsDecRange
import Driver.OpsFields
import Driver.OpsEngine
import Driver.OpsFixed
import Driver.OpsCli
import Driver.OpsSql
import Driver.OpsDataFormat
import Driver.OpsCsv
import Driver.OpsCid
import Driver.OpsOds
import Driver.OpsExcel
open Driver

def dispatch (args : List String) : String :=
  match args with
  | [] => "bad-op"
  | op :: _ =>
    if op.startsWith "range." || op.startsWith "tok." then opRange args
    else if op.startsWith "drange." then opDecRange args
    else if op.startsWith "field." then opFields args
    else if op == "engine" then opEngine args
    else if op == "fixed" then opFixed args
    else if op == "cli" then opCli args
    else if op.startsWith "sql." then opSql args
    else if op == "df" || op.startsWith "df." then opDataFormat args
    else if op.startsWith "csv." then opCsv args
    else if op.startsWith "cid." then opCid args
    else if op == "ods" || op == "odsg" || op == "odsc" then opOds args
    else if op == "excel" then opExcel args
    else "bad-op"

partial def loop (h : IO.FS.Stream) (out : IO.FS.Stream) : IO Unit := do
  let line ← h.getLine
  if line.isEmpty then return ()
  let l := (line.dropEndWhile (fun c => c == '\n' || c == '\r')).toString
  out.putStrLn (dispatch (l.splitOn "\t"))
  loop h out

def main : IO Unit := do
  let out ← IO.getStdout
  loop (← IO.getStdin) out
