import Driver.Proto
import Cutplace.Spec.Fields
namespace Driver
open Cutplace Cutplace.Spec

def decFormat (s : String) : Format :=
  if s == "fixed" then .fixed else if s == "excel" then .excel else if s == "ods" then .ods else .delimited

def decTypeName (s : String) : Option TypeName :=
  if s == "Text" then some .text else if s == "Integer" then some .integer
  else if s == "Choice" then some .choice else if s == "Constant" then some .constant
  else if s == "Scripted" then some (.scripted '!')
  else if s == "Decimal" then some .decimal else if s == "DateTime" then some .datetime
  else if s == "Pattern" then some .pattern else if s == "RegEx" then some .regex else none

def encValue : Value → String
  | .none => "N"
  | .str s => "S" ++ encStr s
  | .int i => "I" ++ toString i
  | .other t => "O" ++ encStr t

def encCellOut : Out (Option Value) → String
  | .ok none => "R"
  | .ok (some v) => encValue v
  | .error .unsupported => "U"
  | .error e => "!" ++ e.tag

def encGuard : Option Bool → String
  | none => "?" | some true => "A" | some false => "R"

/-- `field.decl <type> <fmt> <allowed|n> <empty> <length> <rule> <cells>` -/
def opFields (args : List String) : String :=
  match args with
  | ["field.decl", ty, fmt, allowed, empty, len, rule, cells] =>
    match decTypeName ty with
    | none => "bad-type"
    | some tn =>
      let allowedR : Out (Option Range) :=
        if allowed == "n" then .ok none else (Range.parse (decStr allowed)).map some
      match allowedR with
      | .error e => "allowed:" ++ e.tag
      | .ok al =>
        match declareField tn (decFormat fmt) al (empty == "1") (decStr len) (decStr rule) with
        | .error e => e.tag
        | .ok f =>
          let cs := (splitList cells ",").map decStr
          "ok M=" ++ ",".intercalate (cs.map (fun c => encCellOut (f.validated c))) ++
            " G=" ++ ",".intercalate (cs.map (fun c => encGuard (guardSpec f c))) ++
            " E=" ++ encValue f.kind.emptyValue
  | ["field.declx", ty, fmt, allowed, empty, len, rule, dec, thou, cells] =>
    match decTypeName ty with
    | none => "bad-type"
    | some tn =>
      let allowedR : Out (Option Range) :=
        if allowed == "n" then .ok none else (Range.parse (decStr allowed)).map some
      match allowedR with
      | .error e => "allowed:" ++ e.tag
      | .ok al =>
        let info : FormatInfo := { format := decFormat fmt, allowed := al, decimalSep := (decStr dec).headD '.',
                                   thousandsSep := (decStr thou).head? }
        match declareFieldIn tn info (empty == "1") (decStr len) (decStr rule) with
        | .error e => e.tag
        | .ok f =>
          let cs := (splitList cells ",").map decStr
          "ok M=" ++ ",".intercalate (cs.map (fun c => encCellOut (f.validated c))) ++
            " G=" ++ ",".intercalate (cs.map (fun c => encGuard (guardSpec f c))) ++
            " E=" ++ encValue f.kind.emptyValue
  | _ => "bad-op"

end Driver
