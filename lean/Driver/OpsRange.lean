import Driver.Proto
import Cutplace.Spec.Range
namespace Driver
open Cutplace Cutplace.Spec

def encItem (it : Item) : String := encOptInt it.lo ++ ":" ++ encOptInt it.hi
def encItems (its : Items) : String := if its.isEmpty then "~" else ";".intercalate (its.map encItem)
def encRange (r : Range) : String :=
  match r.items with
  | none => "none"
  | some its => "items=" ++ encItems its ++ " lo=" ++ encOptInt r.lowerLimit ++ " hi=" ++ encOptInt r.upperLimit

/-- `s<v>` single, `c<l>:<u>` closed, `f<l>` from, `u<u>` upto -/
def decItemD (s : String) : ItemD :=
  let body := (s.drop 1).toString
  match s.front with
  | 's' => .single (decInt body)
  | 'c' => match body.splitOn ":" with
           | [l, u] => .closed (decInt l) (decInt u)
           | _ => .single 0
  | 'f' => .from_ (decInt body)
  | _ => .upto (decInt body)

def decLimitSp (s : String) : LimitSp :=
  match s.toList with
  | ['d'] => .dec
  | ['h', a, b] => .hex (a == '1') (b == '1')
  | ['q', a] => .quoted (a == '1')
  | ['y', a] => .sym (a == '1')
  | _ => .dec

/-- `<lo>/<hi>/<sep>/<p0>,<pm>,<p1>,<p2>,<p3>` -/
def decItemSp (s : String) : ItemSp :=
  match s.splitOn "/" with
  | [lo, hi, sep, pads] =>
    let p := (pads.splitOn ",").map String.toNat!
    { lo := decLimitSp lo, hi := decLimitSp hi,
      sep := (if sep == "d" then .dots else if sep == "c" then .colon else .ellipsis),
      pad := (p.getD 0 0, p.getD 1 0, p.getD 2 0, p.getD 3 0, p.getD 4 0) }
  | _ => {}

def b01 (b : Bool) : String := if b then "1" else "0"

def kindName : TokKind → String
  | .number => "NUMBER" | .name => "NAME" | .string => "STRING" | .op => "OP" | .comment => "COMMENT"
  | .endmarker => "ENDMARKER" | .indent => "INDENT" | .newline => "NEWLINE" | .dedent => "DEDENT"

def encToks (ts : List Tok) : String := ",".intercalate (ts.map (fun t => kindName t.kind ++ "=" ++ encStr t.text))

def opRange (args : List String) : String :=
  match args with
  -- model: parse a description text and validate the values
  | ["range.model", desc, vals] =>
    match Range.parse (decStr desc) with
    | .error e => e.tag
    | .ok r => "ok " ++ encRange r ++ " bits=" ++ encBits ((decIntList vals).map r.validate)
  | ["range.model", desc, vals, dflt] =>
    match Range.parse (decStr desc) (some (decStr dflt)) with
    | .error e => e.tag
    | .ok r => "ok " ++ encRange r ++ " bits=" ++ encBits ((decIntList vals).map r.validate)
  -- spec: description AST + spelling -> rendered text, expected items, membership of values
  | ["range.spec", items, spells, vals] =>
    let d : RangeDesc := (splitList items ";").map decItemD
    let sps : List ItemSp := (splitList spells ";").map decItemSp
    let wf := decide (WellFormed d) && decide (LegalSpelling d sps)
    "wf=" ++ b01 wf ++ " text=" ++ encStr (render d sps) ++ " items=" ++ encItems (denote d) ++
      " lo=" ++ encOptInt (specLower d) ++ " hi=" ++ encOptInt (specUpper d) ++
      " bits=" ++ encBits ((decIntList vals).map (fun v => decide (Accepts d v)))
  | ["range.fromlength", desc] =>
    match Range.parse (decStr desc) with
    | .error e => "len:" ++ e.tag
    | .ok len =>
      match createRangeFromLength len with
      | .error e => e.tag
      | .ok r => "ok " ++ encRange r
  | ["tok.nospace", s] =>
    match tokenizeWithoutSpace (decStr s) with
    | .error .tokenError => "exn:TokenError"
    | .error .unsupported => "unsupported"
    | .ok ts => "ok " ++ encToks ts
  | ["tok.gen", s] =>
    match generatedTokens (decStr s) with
    | .error .tokenError => "exn:TokenError"
    | .error .unsupported => "unsupported"
    | .ok ts => "ok " ++ encToks ts
  | _ => "bad-op"

end Driver
